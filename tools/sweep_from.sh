#!/bin/bash
# usage: tools/sweep_from.sh <tier> <seed> <first-prop>   like sweep.sh but starting at a property
tier="$1"; s="$2"; first="$3"
cd "$(dirname "$0")/.."
go=0
for p in $(python3 -c "import json;print(' '.join(c['property_id'] for c in json.load(open('MANIFEST.json'))['checks']))"); do
  [ "$p" = "$first" ] && go=1
  [ $go = 1 ] || continue
  t0=$(date +%s)
  out=$(VERIF_SEED=$s VERIF_EVID_DIR=$PWD/.build/sweep-evidence ./check $p $tier 2>&1); rc=$?
  echo "seed=$s $p rc=$rc $(( $(date +%s) - t0 ))s $(echo "$out" | grep -m1 'INCONCLUSIVE\|VIOLATION' | cut -c1-300)"
done
