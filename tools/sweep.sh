#!/bin/bash
# usage: tools/sweep.sh <tier> <seed...>   runs every registered check with each seed, prints one line per run
tier="$1"; shift
cd "$(dirname "$0")/.."
for s in "$@"; do
  for p in $(python3 -c "import json;print(' '.join(c['property_id'] for c in json.load(open('MANIFEST.json'))['checks']))"); do
    t0=$(date +%s)
    out=$(VERIF_SEED=$s VERIF_EVID_DIR=$PWD/.build/sweep-evidence ./check $p $tier 2>&1); rc=$?
    echo "seed=$s $p rc=$rc $(( $(date +%s) - t0 ))s $(echo "$out" | grep -m1 'INCONCLUSIVE\|VIOLATION' | cut -c1-300)"
  done
done
