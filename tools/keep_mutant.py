#!/usr/bin/env python3
"""tools/keep_mutant.py <srcdir> <id> <property> <needs> <detected_by>  -> /verif/seeded/<id>/{patch.diff,demo,meta.json}"""
import json, os, shutil, sys, glob
src, mid, prop, needs, det = sys.argv[1:6]
dst = os.path.join("/verif/seeded", mid)
os.makedirs(dst, exist_ok=True)
shutil.copy(os.path.join(src, "patch.diff"), dst)
demos = []
for f in glob.glob(os.path.join(src, "zz_demo*")) + glob.glob(os.path.join(src, "demo*")):
    shutil.copy(f, dst); demos.append(os.path.basename(f))
if os.path.exists(os.path.join(src, "README.md")):
    shutil.copy(os.path.join(src, "README.md"), os.path.join(dst, "AUTHOR_NOTES.md"))
meta = {"id": mid, "property": prop, "needs_to_manifest": needs, "demonstration": demos,
        "confirmed": "tools/confirm_mutant.sh: applied in a scratch worktree of /repo; existing suite (go test ./... both modules build) passes with the patch; demonstration fails with the patch and passes without it",
        "detected_by": det, "origin": "independent sub-agent given only the property text and a scratch worktree"}
json.dump(meta, open(os.path.join(dst, "meta.json"), "w"), indent=1)
print("kept", dst)
