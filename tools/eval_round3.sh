#!/bin/bash
# usage: tools/eval_round3.sh <outdir> <id>...   _n* = mutants (own check), _q* = equivalents (area-wide checks)
out="$1"; shift
declare -A AREA=( [C01]="C01 C02 C03 C04 C05 C07 C10 C11 C12 C13" [C02]="C01 C02 C03 C04 C10 C11 C13" [C03]="C01 C03 C04 C10 C11 C13" [C04]="C01 C02 C03 C04 C10 C11 C13" [C07]="C07 C01 C05 C10 C13" [C13]="C13 C03 C04 C06" [C11]="C11 C01 C02 C05 C06 C10 C12"
 [C05]="C05 C06 C11 C12 C14 C10" [C06]="C06 C05 C13 C11" [C14]="C14 C05 C06 C10 C12" [C12]="C12 C05 C11"
 [C15]="C15 C05 C10 C12 C11 C18" [C16]="C16 C10 C18 C20 C12" [C17]="C17 C05 C10 C08 C18" [C08]="C08 C10 C18" [C10]="C10 C01 C05 C14 C15 C16 C17"
 [C18]="C18 C19 C09" [C19]="C19 C18 C09" [C20]="C20 C09" [C09]="C09 C20 C03 C04 C06")
for id in "$@"; do
  prop=${id%%_*}
  if [[ "$id" == *_q* ]]; then checks=${AREA[$prop]}; else checks=$prop; fi
  echo "== $id ($checks)"
  timeout 6000 /verif/tools/try_mutant_wt.sh "$out/$id/patch.diff" $checks 2>&1 | sed -u 's/^/   /'
done
