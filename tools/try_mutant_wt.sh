#!/bin/bash
# usage: tools/try_mutant_wt.sh <patch.diff> <PROP> [<PROP>...]
# Like try_mutant.sh but applies the patch to a scratch worktree of /repo (outside /repo and /verif) and points the
# checks at it with VERIF_REPO, so that /repo itself and background runs are not disturbed. The worktree is removed.
patch="$1"; shift
wt=/tmp/trywt-$$
git -C /repo worktree add -q --detach $wt HEAD || exit 3
trap 'git -C /repo worktree remove --force '$wt' 2>/dev/null' EXIT
git -C $wt apply "$patch" || { echo "patch does not apply"; exit 3; }
cd /verif
for p in "$@"; do
  VERIF_REPO=$wt VERIF_EVID_DIR=/verif/.build/mut-evidence ./check "$p" ${TIER:-quick} > /verif/.build/mutwt-$$-$p.out 2>&1
  rc=$?
  echo "$p rc=$rc $(grep -c '^VIOLATION' /verif/.build/mutwt-$$-$p.out) violation line(s); $(grep -m1 'reason' /verif/.build/mutwt-$$-$p.out | cut -c1-220)"
  grep -m1 "INCONCLUSIVE" /verif/.build/mutwt-$$-$p.out | cut -c1-300
  rm -f /verif/.build/mutwt-$$-$p.out
done
