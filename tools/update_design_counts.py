#!/usr/bin/env python3
"""Rewrite the event counts in DESIGN.md section 5 from evidence/*.json (run after `tools/sweep.sh quick 1`
with the default evidence directory, i.e. after every ./check <ID> quick with VERIF_SEED=1)."""
import json, os, re
ROOT = os.path.dirname(os.path.dirname(os.path.abspath(__file__)))
p = os.path.join(ROOT, "DESIGN.md")
s = open(p).read()
def fmt(n):
    t = "%d" % n
    out = ""
    while len(t) > 3:
        out = " " + t[-3:] + out
        t = t[:-3]
    return t + out
changed = []
lines = s.split("\n")
for i, l in enumerate(lines):
    m = re.match(r"\| (C\d\d) \|", l)
    if not m:
        continue
    pid = m.group(1)
    if pid in ("C09", "C11"):
        continue   # their rows give several figures, kept by hand
    ev = json.load(open(os.path.join(ROOT, "evidence", pid + ".json")))
    if ev["tier"] != "quick" or ev["seed"] != 1:
        print("skip", pid, "evidence is", ev["tier"], ev["seed"])
        continue
    n = ev["coverage"]["evaluations"]
    m2 = re.search(r"(\d[\d   ]*\d)( `GenerateHOTP` events| events| exchanges| calls under Node)", l)
    if m2:
        lines[i] = l[:m2.start(1)] + fmt(n) + l[m2.end(1):]
        changed.append((pid, m2.group(1), fmt(n)))
open(p, "w").write("\n".join(lines))
for c in changed:
    print(*c)
