#!/bin/bash
# usage: tools/try_mutant.sh <patch.diff> <PROP> [<PROP>...]   applies the patch to /repo, runs the quick checks, reverts
patch="$1"; shift
cd /repo || exit 3
if ! git diff --quiet; then echo "repo dirty"; exit 3; fi
git apply "$patch" || { echo "patch does not apply"; exit 3; }
trap 'git -C /repo checkout -- . ; git -C /repo clean -fdq' EXIT
cd /verif
for p in "$@"; do
  VERIF_EVID_DIR=/verif/.build/mut-evidence ./check "$p" ${TIER:-quick} > /verif/.build/mut-$p.out 2>&1
  rc=$?
  echo "$p rc=$rc $(grep -c '^VIOLATION' /verif/.build/mut-$p.out) violation line(s); $(grep -m1 'reason' /verif/.build/mut-$p.out)"
  grep -m1 "INCONCLUSIVE" /verif/.build/mut-$p.out | cut -c1-300
done
