#!/bin/bash
# usage: tools/regress_seeded.sh [-P n] [id...]   every kept change against the check of its property (scratch worktrees):
# faulty changes must give rc=1, harmless refactorings (ids *_e*, *_eq*, *_q*) rc=0. One line per change.
P=4; if [ "$1" = "-P" ]; then P=$2; shift 2; fi
cd "$(dirname "$0")/.."
ids="$@"; [ -z "$ids" ] && ids=$(ls seeded)
one() {
  id=$1; d=seeded/$id
  prop=$(python3 -c "import json;print(json.load(open('$d/meta.json'))['property'])" 2>/dev/null | cut -c1-3)
  [ -z "$prop" ] && { echo "$id ?? no meta"; return; }
  want=1; case "$id" in *_e[0-9]*|*_eq[0-9]*|*_q[0-9]*) want=0;; R6_A_m1) want=0;; esac   # R6_A_m1: the documented miss (DESIGN section 9)
  out=$(tools/try_mutant_wt.sh $PWD/$d/patch.diff $prop 2>&1 | head -2 | tr "\n" " ")
  rc=$(echo "$out" | sed -n 's/.* rc=\([0-9]*\).*/\1/p')
  if [ "$rc" = "$want" ]; then echo "$id $prop ok(rc=$rc)"; else echo "$id $prop UNEXPECTED want=$want got: $out" | cut -c1-300; fi
}
export -f one
echo $ids | tr ' ' '\n' | xargs -P $P -I{} bash -c 'one {}'
