#!/bin/bash
# usage: tools/eval_round4.sh <outdir> <id>...   free-form round: each directory names its property in the file PROPERTY
out="$1"; shift
for id in "$@"; do
  d="$out/$id"; prop=$(tr -d ' \n' < "$d/PROPERTY" | cut -c1-3)
  echo "== $id ($prop)"
  if [ -f "$d/run_demo.sh" ]; then /verif/tools/confirm_demo.sh "$d" "$id" 2>&1 | tail -2 | sed 's/^/   /'
  elif ls "$d"/zz_demo*_test.go >/dev/null 2>&1; then /verif/tools/confirm_mutant.sh "$d" "$id" 2>&1 | tail -1 | sed 's/^/   /'
  else echo "   (no runnable demonstration)"; fi
  timeout 6000 /verif/tools/try_mutant_wt.sh "$d/patch.diff" $prop 2>&1 | sed -u 's/^/   /' | cut -c1-330
done
