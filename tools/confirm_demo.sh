#!/bin/bash
# usage: tools/confirm_demo.sh <mutant-dir> <name>   for mutants whose demonstration is run_demo.sh <worktree>
src="$1"; name="$2"
wt=/tmp/confirm-$$
git -C /repo worktree add -q --detach $wt HEAD || exit 3
trap 'git -C /repo worktree remove --force '$wt EXIT
cd $wt
git apply "$src/patch.diff" || { echo "APPLY-FAIL $name"; exit 1; }
suite=$( (GOPROXY=off go build ./... && GOPROXY=off go test -count=1 ./... && cd internal/app && GOPROXY=off go build ./... && GOPROXY=off go test -count=1 ./... ) 2>&1 | grep -c "^FAIL\|cannot\|error")
[ "$suite" = "0" ] || { echo "SUITE-FAILS-WITH-PATCH $name"; exit 1; }
timeout 1200 bash "$src/run_demo.sh" $wt > /tmp/confirm-with.log 2>&1; with=$?
git checkout -q -- . ; git clean -fdq
timeout 1200 bash "$src/run_demo.sh" $wt > /tmp/confirm-without.log 2>&1; without=$?
echo "with patch: exit $with   without patch: exit $without"
if [ $with -ne 0 ] && [ $without -eq 0 ]; then echo "CONFIRMED $name"; else echo "NOT-CONFIRMED $name"; exit 1; fi
