#!/bin/bash
# usage: tools/eval_round.sh <outdir> <id>...   evaluates round changes: mutants against their property's check,
# equivalents against their property's check plus the checks of the neighbouring properties
out="$1"; shift
declare -A REL=( [C01]="C01 C02 C03 C10 C11 C13" [C02]="C02 C04 C10" [C03]="C03 C13 C10" [C04]="C04 C13 C10" [C05]="C05 C06 C11 C12 C14" [C06]="C06 C13 C05" [C07]="C07 C01 C10" [C08]="C08 C10" [C10]="C10 C01 C05 C14 C15 C16 C17" [C11]="C11 C01 C05 C12" [C12]="C12 C05 C11" [C13]="C13 C03 C06" [C14]="C14 C05 C06 C10" [C15]="C15 C05 C18" [C16]="C16 C10 C18 C20" [C17]="C17 C05 C10" [C18]="C18 C19" [C19]="C19 C18" [C20]="C20" [C09]="C09")
for id in "$@"; do
  prop=${id%%_*}
  if [[ "$id" == *_e* ]]; then checks=${REL[$prop]}; else checks=$prop; fi
  echo "== $id ($checks)"
  timeout 3000 /verif/tools/try_mutant_wt.sh "$out/$id/patch.diff" $checks 2>&1 | sed 's/^/   /'
done
