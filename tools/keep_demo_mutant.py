#!/usr/bin/env python3
"""tools/keep_demo_mutant.py <srcdir> <id> <property> <needs> <detected_by>  (mutants whose demonstration is run_demo.sh)"""
import json, os, shutil, sys
src, mid, prop, needs, det = sys.argv[1:6]
dst = os.path.join("/verif/seeded", mid)
os.makedirs(dst, exist_ok=True)
demos = []
for f in os.listdir(src):
    if f in ("README.md",):
        shutil.copy(os.path.join(src, f), os.path.join(dst, "AUTHOR_NOTES.md"))
    elif f.endswith(".log"):
        continue
    else:
        shutil.copy(os.path.join(src, f), dst)
        if f != "patch.diff":
            demos.append(f)
json.dump({"id": mid, "property": prop, "needs_to_manifest": needs, "demonstration": sorted(demos),
           "confirmed": "tools/confirm_demo.sh: patch applied in a scratch worktree of /repo; both modules build and their suites pass with the patch; run_demo.sh <worktree> exits non-zero with the patch and zero without it",
           "detected_by": det, "origin": "independent sub-agent given only the property text and a scratch worktree"},
          open(os.path.join(dst, "meta.json"), "w"), indent=1)
print("kept", dst)
