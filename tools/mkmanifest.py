#!/usr/bin/env python3
"""Regenerates MANIFEST.json from the table below (single source for check registration)."""
import json, os
ROOT = os.path.dirname(os.path.dirname(os.path.abspath(__file__)))

TB = ("Trusted: TLC; Go crypto/hmac as the interpretation of the specification's uninterpreted HMAC symbol "
      "(anchored by RFC vectors asserted in the specification); encoding/json; the harness records calls faithfully "
      "(it holds no expected values). Exhaustive only at small scope; real-scale coverage is boundary-led enumeration "
      "plus seeded random traces, every event judged by TLC.")

P = {
 "C01": ("LibTrace", "TLA+ spec (Lib/RFC4226/RFC4648/U64) + TLC trace validation of recorded GenerateHOTP calls at real scale; stage observation through the HMAC hook",
         "5/C01"),
 "C02": ("LibTrace", "TLA+ spec (Lib: ResolveTOTP, StepIs via 64-bit limb arithmetic) + TLC trace validation of recorded GenerateTOTP calls", "5/C02"),
 "C03": ("LibTrace", "TLA+ spec (Lib: ValHOTPExpect = declarative window set) + small-scope TLC model of the window loop + TLC trace validation of recorded ValidateHOTP calls", "5/C03"),
 "C04": ("LibTrace", "TLA+ spec (Lib: ValTOTPExpect, MaxWork) + small-scope TLC model + TLC trace validation of recorded ValidateTOTP calls incl. HMAC-evaluation counter", "5/C04"),
 "C07": ("LibTrace", "TLA+ spec (RFC4648: Encode/Region/KeyOf) + TLC trace validation of DecodeSecret and spelling groups on every entry point", "5/C07"),
 "C05": ("LibTrace", "TLA+ spec (RFC6287: Msg layout, EffCfg from the suite name; Lib: GenOCRAExpect) + TLC trace validation of recorded GenerateOCRA calls; message observed byte for byte through the HMAC hook", "5/C05"),
 "C06": ("LibTrace", "TLA+ spec (Lib: ValOCRAExpect = iff with generation) + TLC trace validation of recorded ValidateOCRA calls (edits, same-value strings, nearest admissible neighbours)", "5/C06"),
 "C08": ("LibTrace", "TLA+ spec with stream state (usedIv: consumed intervals of the substituted crypto/rand.Reader) + TLC trace validation of recorded RandomSecret histories, sequential and concurrent (concurrent calls held at a rendezvous inside the substituted source) and of TLC-generated call histories (LibGen)", "5/C08"),
 "C09": ("Taint", "TLA+ information-flow transition system (spec/Taint.tla) instantiated with the SSA data-flow graph re-extracted from the current tree (native, js/wasm, REST); TLC computes the taint fixpoint and checks NoLeak + non-vacuity", "5/C09"),
 "C10": ("LibTrace", "TLA+ spec: reply relation total over values/errors only (Returned) for every exported operation + TLC trace validation of calls with extreme arguments under recover() and a watchdog, in both build configurations (native; harness compiled for js/wasm and run under Node for the functions exported only there)", "5/C10"),
 "C11": ("Pools", "TLA+ model of the pooled-buffer protocol (spec/Pools.tla) model-checked exhaustively (2-3 callers x adversary x GC) and, for any number of calls per caller, by an inductive invariant discharged with Apalache (spec/PoolsInd.tla); TLC-generated behaviours replayed on the real code through scheduler gates and validated by PoolsTrace; TLC-generated sequential histories (LibGen) compared call by call with fresh-process runs; free-running race-detector tier validated against the sequential specification", "5/C11"),
 "C12": ("LibTrace", "TLA+ frame conditions (FrameFails: argument memory incl. spare capacity, defaults, registry, retained results) + TLC trace validation of recorded memory snapshots, incl. TLC-generated call histories (LibGen)", "5/C12"),
 "C14": ("LibTrace", "TLA+ spec (RFC6287: SuiteUsable, Admissible) + TLC trace validation of the length grid 0..140 per field and the usability grid through Validate/Generate/ValidateOCRA", "5/C14"),
 "C15": ("LibTrace", "TLA+ spec (RFC6287: Reading = independent grammar reading of suite strings) + TLC trace validation of NewRawSuite/ListSuites/IsKnownSuite/SuiteConfigFromRaws over advertised names, grammar enumeration and malformed classes", "5/C15"),
 "C16": ("LibTrace", "TLA+ spec (Lib: URL round-trip law, Dec: Atoi denotation) + TLC trace validation of generate->String->Parse->ParseOTPAuthURL round trips and parse-only texts", "5/C16"),
 "C17": ("LibTrace", "TLA+ spec (Dec: bignum decimal->hex, ParseUint acceptance; Lib helper operators) + TLC trace validation of helper calls and numeric-question end-to-end generation", "5/C17"),
 "C13": ("LibTrace", "TLA+ spec (Lib: VerdictWellFormed, Discloses) + TLC trace validation of every failing call", "5/C13"),
 "C18": ("RestTrace", "TLA+ spec (spec/RestTrace.tla: per-endpoint request->library mapping composed with Lib; spec/Rest.tla small-scope model) + TLC validation of every exchange recorded from the real server binary on loopback (sequential, kept-alive and fresh connections, 8 concurrent clients)", "5/C18"),
 "C19": ("RestTrace", "TLA+ spec (spec/Rest.tla: bounded work, status classes, Received ~> Responded under fairness, model-checked with its unguarded negative twin; spec/RestTrace.tla) + TLC validation of fault sequences interleaved with probes against the real server binary, 3 s deadline per exchange, liveness probe at the end", "5/C19"),
 "C20": ("WasmTrace", "TLA+ spec (spec/WasmTrace.tla: JS argument-marshalling layer composed with the native Lib operators; spec/Wasm.tla small-scope model incl. export-table identity) + TLC validation of every call made under Node to the freshly built otp.wasm, via globalThis and via the JS package's export object; plus LibTrace validation of the wasm-only Go functions behind the binding, called from the harness compiled for js/wasm", "5/C20"),
}

def main():
    props = [json.loads(l) for l in open(os.path.join(ROOT, "properties.jsonl"))]
    ids = [p["id"] for p in props]
    checks = []
    for pid in ids:
        if pid not in P:
            continue
        eng, tech, ref = P[pid]
        checks.append({
            "property_id": pid,
            "quick_cmd": "./check %s quick" % pid,
            "thorough_cmd": "./check %s thorough" % pid,
            "evidence_file": "/verif/evidence/%s.json" % pid,
            "replay_cmd_template": "./check %s --replay {path}" % pid,
            "engine": eng,
            "level_claimed": {"category": "model_checking",
                              "text": LEVEL_TEXT.get(pid, LEVEL_DEFAULT),
                              "design_ref": "DESIGN.md section " + ref},
            "level_note": NOTES.get(pid, TB),
            "technique": tech,
        })
    na = [{"property_id": pid, "reason": NA.get(pid, "check under construction in this session: not claimed until its specification and conformance harness are committed")}
          for pid in ids if pid not in P]
    m = {
        "version": 1,
        "setup_cmd": "./setup.sh",
        "hooks": {
            "guard": "verif",
            "enable": "harness module (replace github.com/ja7ad/otp => /repo) built with go build -tags verif,verif_internal; falls back to -tags verif, then to no tag",
            "baseline_off_cmd": "for m in . ./internal/app; do (cd /repo/$m && GOPROXY=off go test -json -vet=off -count=1 -timeout 25m ./...); done",
            "source_commits": ["e8bc7ea", "cf36f95"],
            "add_only": True,
        },
        "engines": [
            {"name": "Pools", "path": "spec/Pools.tla", "serves_properties": ["C11"],
             "kind_free_text": "TLA+ model of Get/fill/HMAC/format/deferred Put with adversary and GC; PoolsGen generates behaviours (tlc -simulate), harness/gate.go replays them on the real code under GOMAXPROCS(1) through the verif hook's gates, PoolsTrace validates the recorded events (unlogged Get/Put inferred by TLC)"},
            {"name": "RestTrace", "path": "spec/RestTrace.tla", "serves_properties": ["C18", "C19"],
             "kind_free_text": "explicit TLA+ description of the ten endpoints (field defaults, refusal conditions, response shape) over the Lib operators; black-box driver harness/rest.go + rest_scen.go against the server binary built from the current tree"},
            {"name": "WasmTrace", "path": "spec/WasmTrace.tla", "serves_properties": ["C20"],
             "kind_free_text": "TLA+ description of the five JS-visible functions over the native Lib operators; harness/wasm.go generates calls and merges results, harness/js/driver.js runs them under Node 20 against GOOS=js GOARCH=wasm build of the current tree and a scratch copy of otp-js/src/index.js"},
            {"name": "Taint", "path": "spec/Taint.tla", "serves_properties": ["C09"],
             "kind_free_text": "TLA+ taint-propagation system over a program graph; constants come from harness/ssagraph (x/tools go/ssa + CHA call graph) run on the current tree"},
            {"name": "LibTrace", "path": "spec/LibTrace.tla", "serves_properties": [p for p in ids if p in P and (P[p][0] == "LibTrace" or p in ("C11", "C20"))],
             "kind_free_text": "explicit TLA+ specification of package otp (spec/Lib.tla and data modules) checked by TLC; conformance by trace validation of events recorded from the real code (harness/), small-scope exhaustive model configurations (Lemmas.cfg, Window_*.cfg) and TLAPS lemmas (WindowLemma, StepLemma); LibGen generates call histories for C08/C11/C12; also validates the library events of C11's free-running tier and the js/wasm-only functions for C20"},
        ],
        "checks": checks,
        "notes": "All checks: ./check <ID> quick|thorough; exit 0 held / 1 VIOLATION (reproduced, not a listed known finding) / 2 inconclusive. See DESIGN.md.",
        "not_applicable": na,
    }
    json.dump(m, open(os.path.join(ROOT, "MANIFEST.json"), "w"), indent=1)
    print("MANIFEST.json: %d checks, %d not claimed" % (len(checks), len(na)))

LEVEL_DEFAULT = ("Explicit TLA+ specification checked by TLC: small-scope configurations exhaustively, and every event of "
                 "traces recorded from the real code (current tree, rebuilt per run) validated against the specification "
                 "at real scale (64-bit words, base32, dynamic truncation, window sets evaluated by TLC). Inputs are "
                 "enumerated from the property's own case analysis, so the universally quantified statement is sampled "
                 "at every boundary the case analysis has, not proved for all 2^64 counters.")
LEVEL_TEXT = {
 "C09": ("Explicit TLA+ information-flow system (spec/Taint.tla) model-checked by TLC on the data-flow graph that is re-extracted "
         "from the current tree on every run (three build configurations): TLC computes the taint fixpoint and the invariant "
         "NoLeak says no variable-time comparison site sees HMAC-derived data on one side and submitted text on the other. "
         "Exhaustive over the extracted graph; the binding to the code is the extractor, not a trace."),
 "C11": ("Explicit TLA+ model of the pooled-buffer protocol model-checked exhaustively (2-3 callers x adversary x collections), "
         "TLC-generated interleavings replayed on the real code through scheduler gates and validated against the model, "
         "TLC-generated sequential histories (LibGen) run in one process and call by call in fresh processes, and a free-running "
         "race-detector tier validated against the sequential specification. Exhaustive at model level and at gate granularity "
         "for the generated schedules; sampled below that granularity."),
 "C18": ("Explicit TLA+ description of the ten endpoints over the library specification; small-scope model of request handling "
         "checked exhaustively; every exchange with the real server binary (built from the current tree) validated by TLC. "
         "Sampled over request bodies at every boundary the endpoint mapping has, sequentially, concurrently and in per-endpoint bursts."),
 "C19": ("Explicit TLA+ model of request handling (bounded work, status classes, received ~> responded under fairness) checked "
         "exhaustively with a negative twin; fault sequences interleaved with probes against the real server validated by TLC."),
 "C20": ("Explicit TLA+ description of the JS argument-marshalling layer composed with the native library specification; every call "
         "made under Node to the freshly built module (global names and package exports) validated by TLC, plus the js/wasm-only "
         "Go functions called from the harness compiled for js/wasm."),
}
NOTES = {
 "C20": "Node 20, syscall/js and the toolchain's wasm_exec.js are environment. Numbers are exercised up to 2^53 (exactly representable); fractional arguments only where they are exactly representable. The package path uses the repository's own otp-js/src/index.js and wasm_exec.js with lib/otp.wasm replaced by the fresh build (the committed binary is a release artefact and is not judged).",
 "C18": "Black-box: fasthttp, encoding/json and net/http are environment. The server's clock is bounded by the client's clock before and after the exchange (same host). HMAC oracle as elsewhere. Request strings are valid UTF-8; texts with Unicode white space at the edges are left undecided.",
 "C19": "Liveness is proved on the small-scope model (fairness, 3 requests, scaled skew limit) and observed on the real server with a 3 s deadline per exchange (normal latency is below 1 ms). Bodies beyond the 1 MiB limit are outside the property's domain (the server may drop the connection); syntactic malformedness classes (broken JSON, wrong JSON type) are the request generator's claim, the body text is kept in the replay file.",
 "C09": "Model checking of an extracted abstraction: the verdict is TLC's (NoLeak over the taint fixpoint), the binding is the extractor, re-run on the current tree for three build configurations. Trusted: the SSA builder and CHA call graph of x/tools v0.29, the extractor's transfer rules for calls outside the analysed packages (result tainted iff an argument is; copy/json.Unmarshal/hex.Decode/PutUint64/io.ReadFull/Write taint an argument), the list of variable-time primitives; implicit (control) flows and hardware timing are out of scope. Non-vacuity is checked: every constant-time comparison site must be reached by HMAC-derived data on one operand and submitted text on the other.",
 "C11": "Interleavings are explored exhaustively on the model and at the granularity of the hook's gates (constructor, Write, Sum, return) on the real code, under GOMAXPROCS(1); finer-grained races are left to the race-detector tier, which samples. Trusted: TLC, the Go scheduler obeying channel handshakes, sync.Pool semantics as modelled (Get returns any pooled item or a new one; items may be dropped at any time), buffer identity by address.",
}
NA = {}

if __name__ == "__main__":
    main()
