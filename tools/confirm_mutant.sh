#!/bin/bash
# usage: tools/confirm_mutant.sh <mutant-dir> <name>   confirms (suite passes with patch, demo fails with / passes without) in a scratch worktree
src="$1"; name="$2"
wt=/tmp/confirm-$$
git -C /repo worktree add -q --detach $wt HEAD || exit 3
cleanup() { git -C /repo worktree remove --force $wt; }
trap cleanup EXIT
cd $wt
git apply "$src/patch.diff" || { echo "APPLY-FAIL"; exit 1; }
suite=$( (GOPROXY=off go build ./... && GOPROXY=off go test -count=1 ./... && cd internal/app && GOPROXY=off go build ./... ) 2>&1 | tail -3)
echo "$suite" | grep -q "^ok" || { echo "SUITE-FAILS-WITH-PATCH: $suite"; exit 1; }
cp "$src"/zz_demo*_test.go . 2>/dev/null
pat=$(grep -ho "^func Test[A-Za-z0-9_]*" "$src"/zz_demo*_test.go | sed 's/func //' | paste -sd'|')
with=$(GOPROXY=off go test -count=1 -run "^($pat)\$" . 2>&1 | tail -3)
git checkout -q -- . 
without=$(GOPROXY=off go test -count=1 -run "^($pat)\$" . 2>&1 | tail -3)
echo "with patch   : $(echo "$with" | tail -1)"
echo "without patch: $(echo "$without" | tail -1)"
if echo "$with" | grep -q "^FAIL" && echo "$without" | grep -q "^ok"; then echo "CONFIRMED $name"; else echo "NOT-CONFIRMED $name"; exit 1; fi
