#!/usr/bin/env python3
"""Mechanical mutation sweep: a self-test of the checks, not a check.

  tools/mutsweep.py gen                 enumerate syntactic mutants of the non-test sources -> $MSW/muts/<id>.diff
  tools/mutsweep.py filter [-j N]       keep the mutants that compile in every configuration and pass the repository's
                                        own tests -> $MSW/survivors.txt
  tools/mutsweep.py check [-j N] [ids]  run the mapped quick checks on each survivor (scratch worktree + VERIF_REPO)
                                        -> $MSW/results.tsv   (id, file:line, operator, checks with rc)

Everything happens in scratch worktrees under $MSW (default /tmp/msw), never in /repo. Survivors that no check
reports are either equivalent changes or gaps; they are triaged by hand (see DESIGN.md section 8).
"""
import os, re, subprocess, sys, shutil, json, concurrent.futures as cf

MSW = os.environ.get("MSW", "/tmp/msw")
REPO = "/repo"
VERIF = os.path.dirname(os.path.dirname(os.path.abspath(__file__)))

FILES = {
    "decoder.go": ["C07", "C01"],
    "derive.go": ["C01", "C05", "C11", "C17"],
    "derive_rfc4226.go": ["C01", "C02", "C11"],
    "derive_rfc6287.go": ["C05", "C14", "C11", "C17"],
    "hotp.go": ["C01", "C03", "C16"],
    "totp.go": ["C02", "C04", "C16"],
    "ocra.go": ["C05", "C06"],
    "otp.go": ["C14", "C17", "C08", "C16", "C05", "C02", "C18"],
    "suite_rfc6287.go": ["C15", "C14", "C05"],
    "utils.go": ["C17"],
    "validate.go": ["C03", "C04", "C06", "C13", "C09"],
    "internal/app/api/handlers.go": ["C18", "C19"],
    "internal/app/api/dto.go": ["C18", "C19"],
    "internal/app/api/common.go": ["C18", "C19"],
    "wasm/main.go": ["C20"],
    "validate_wasm.go": ["C20", "C10"],
    "derive_rfc4226_wasm.go": ["C20", "C10"],
}
ALWAYS = {"lib": [], "rest": [], "wasm": []}   # C10/C12 as well: MSW_ALWAYS=1
if os.environ.get("MSW_ALWAYS"):
    ALWAYS["lib"] = ["C10", "C12"]

SWAPS = [(" < ", " <= "), (" <= ", " < "), (" > ", " >= "), (" >= ", " > "), (" == ", " != "), (" != ", " == "),
         (" + ", " - "), (" - ", " + "), (" * ", " / "), (" / ", " * "), (" % ", " / "), (" << ", " >> "), (" >> ", " << "),
         (" & ", " | "), (" | ", " & "), (" && ", " || "), (" || ", " && "), ("true", "false"), ("false", "true"),
         ("++", "--"), (" += ", " -= "), (" -= ", " += "), ("break", "continue"), ("continue", "break"),
         (" < ", " > "), (" > ", " < "), ("!", ""), ("uint64(", "uint32("), ("int64(", "int32("), (" ^ ", " | "), (" |= ", " &= ")]
NUM = re.compile(r"(?<![\w.\"'])(0x[0-9a-fA-F]+|\d+)(?![\w.\"'])")


def code_part(line):
    """the part of the line before a // comment, with string literals blanked (same length)"""
    out, i, n, instr = [], 0, len(line), None
    while i < n:
        ch = line[i]
        if instr:
            if ch == "\\" and instr != "`":
                out.append("  "); i += 2; continue
            if ch == instr:
                instr = None
                out.append(ch)
            else:
                out.append("\x00")
            i += 1; continue
        if ch in "\"`'":
            instr = ch; out.append(ch); i += 1; continue
        if line.startswith("//", i):
            break
        out.append(ch); i += 1
    return "".join(out)


def gen():
    d = os.path.join(MSW, "muts")
    shutil.rmtree(d, ignore_errors=True)
    os.makedirs(d)
    index, k = [], 0
    for f in FILES:
        src = open(os.path.join(REPO, f)).read().split("\n")
        inimport = False
        for ln, line in enumerate(src):
            s = line.strip()
            if s.startswith("import ("):
                inimport = True
            if inimport:
                if s == ")":
                    inimport = False
                continue
            if not s or s.startswith("//") or s.startswith("package ") or s.startswith("import "):
                continue
            cp = code_part(line)
            muts = []
            for a, b in SWAPS:
                start = 0
                while True:
                    p = cp.find(a, start)
                    if p < 0:
                        break
                    start = p + 1
                    if a == "!" and cp[p:p + 2] == "!=":
                        continue
                    if a in ("true", "false", "break", "continue") and (cp[p - 1:p].isalnum() or cp[p + len(a):p + len(a) + 1].isalnum()):
                        continue
                    muts.append((line[:p] + b + line[p + len(a):], "%s->%s" % (a.strip(), b.strip() or "(removed)")))
            for m in NUM.finditer(cp):
                t = m.group(1)
                v = int(t, 16) if t.startswith("0x") else int(t)
                for nv in (v + 1, v - 1) if v > 0 else (1,):
                    nt = hex(nv) if t.startswith("0x") else str(nv)
                    muts.append((line[:m.start(1)] + nt + line[m.end(1):], "%s->%s" % (t, nt)))
            # statement deletion: simple statements only
            if re.match(r"^\s*(defer\s+)?[\w.\[\]\*]+(\(.*\)|\s*(=|\+=|-=|\|=|&=|\^=)\s*.+|\+\+|--)\s*$", cp) and not s.startswith("return") \
                    and ":=" not in cp and not s.startswith("func") and not s.endswith("{"):
                muts.append((None, "delete statement"))
            if re.match(r"^\s*(continue|break)\s*$", cp):
                muts.append((None, "delete statement"))
            for new, op in muts:
                k += 1
                ms = list(src)
                if new is None:
                    del ms[ln]
                else:
                    ms[ln] = new
                mid = "m%04d" % k
                with open(os.path.join(d, mid + ".go"), "w") as fh:
                    fh.write("\n".join(ms))
                index.append({"id": mid, "file": f, "line": ln + 1, "op": op, "orig": line.strip()[:120], "new": (new or "").strip()[:120]})
    json.dump(index, open(os.path.join(MSW, "index.json"), "w"), indent=0)
    print("generated", k, "mutants")


def sh(cmd, cwd, env=None, timeout=900):
    e = dict(os.environ)
    e["GOPROXY"] = "off"
    e.update(env or {})
    try:
        p = subprocess.run(cmd, cwd=cwd, env=e, shell=True, stdout=subprocess.PIPE, stderr=subprocess.STDOUT, timeout=timeout)
        return p.returncode, p.stdout.decode("utf-8", "replace")
    except subprocess.TimeoutExpired:
        return 124, "timeout"


def worktree(i):
    wt = os.path.join(MSW, "wt%d" % i)
    if not os.path.isdir(wt):
        sh("git -C %s worktree add -q --detach %s HEAD" % (REPO, wt), "/")
    return wt


def kind_of(f):
    return "rest" if f.startswith("internal/app") else "wasm" if ("wasm" in f) else "lib"


def filter_one(args):
    m, slot = args
    wt = worktree(slot)
    sh("git checkout -q -- . && git clean -fdq", wt)
    shutil.copy(os.path.join(MSW, "muts", m["id"] + ".go"), os.path.join(wt, m["file"]))
    k = kind_of(m["file"])
    try:
        if k == "lib":
            steps = ["go build ./... && go vet . >/dev/null 2>&1; go build -tags verif ./... && go build -tags verif,verif_internal ./...",
                     "GOOS=js GOARCH=wasm go build -o /dev/null ./wasm",
                     "go test -count=1 -timeout 120s ./...",
                     "cd internal/app && go build ./... && go test -count=1 -timeout 120s ./..."]
        elif k == "wasm":
            steps = ["GOOS=js GOARCH=wasm go build -o /dev/null ./wasm", "go build ./... && go test -count=1 -timeout 120s ./...",
                     "GOOS=js GOARCH=wasm go vet ./wasm . >/dev/null 2>&1; true"]
        else:
            steps = ["cd internal/app && go build ./... && go test -count=1 -timeout 120s ./..."]
        for s in steps:
            rc, out = sh(s, wt, timeout=300)
            if rc != 0:
                return m["id"], False, s[:30]
        rc, diff = sh("git diff", wt)
        open(os.path.join(MSW, "muts", m["id"] + ".diff"), "w").write(diff)
        return m["id"], True, ""
    finally:
        sh("git checkout -q -- .", wt)


def pool_map(fn, items, j):
    """run fn over items with j worker slots, each item gets a stable slot number"""
    import queue, threading
    q = queue.Queue()
    for it in items:
        q.put(it)
    res, lock = [], threading.Lock()

    def worker(slot):
        while True:
            try:
                it = q.get_nowait()
            except queue.Empty:
                return
            r = fn((it, slot))
            with lock:
                res.append(r)
                if len(res) % 25 == 0:
                    print("  ..", len(res), "/", len(items), flush=True)
    ts = [threading.Thread(target=worker, args=(i,)) for i in range(j)]
    [t.start() for t in ts]
    [t.join() for t in ts]
    return res


def do_filter(j):
    index = json.load(open(os.path.join(MSW, "index.json")))
    res = pool_map(filter_one, index, j)
    surv = sorted(i for i, ok, _ in res if ok)
    open(os.path.join(MSW, "survivors.txt"), "w").write("\n".join(surv) + "\n")
    print("survivors:", len(surv), "of", len(index))


def check_one(args):
    m, slot = args
    wt = worktree(100 + slot)
    sh("git checkout -q -- . && git clean -fdq", wt)
    shutil.copy(os.path.join(MSW, "muts", m["id"] + ".go"), os.path.join(wt, m["file"]))
    props = FILES[m["file"]] + ALWAYS[kind_of(m["file"])]
    out = []
    hit = False
    for p in props:
        rc, o = sh("./check %s quick" % p, VERIF, env={"VERIF_REPO": wt, "VERIF_EVID_DIR": os.path.join(MSW, "evid%d" % slot)}, timeout=1500)
        out.append("%s=%d" % (p, rc))
        if rc == 1:
            hit = True
            break
    sh("git checkout -q -- .", wt)
    line = "\t".join([m["id"], "DETECTED" if hit else "SILENT", "%s:%d" % (m["file"], m["line"]), m["op"], " ".join(out), m["orig"], "=>", m["new"]])
    with open(os.path.join(MSW, "results.tsv"), "a") as fh:
        fh.write(line + "\n")
    return line


def do_check(j, ids):
    index = {m["id"]: m for m in json.load(open(os.path.join(MSW, "index.json")))}
    surv = ids or open(os.path.join(MSW, "survivors.txt")).read().split()
    done = set()
    rp = os.path.join(MSW, "results.tsv")
    if os.path.exists(rp) and not ids:
        done = {l.split("\t")[0] for l in open(rp)}
    todo = [index[i] for i in surv if i not in done]
    order = {f: k for k, f in enumerate(["validate.go", "decoder.go", "derive.go", "derive_rfc4226.go", "derive_rfc6287.go", "hotp.go", "totp.go", "ocra.go",
                                         "utils.go", "otp.go", "internal/app/api/handlers.go", "internal/app/api/dto.go", "internal/app/api/common.go",
                                         "validate_wasm.go", "derive_rfc4226_wasm.go", "wasm/main.go", "suite_rfc6287.go"])}
    todo.sort(key=lambda m: (order.get(m["file"], 99), m["id"]))
    print("checking", len(todo), "survivors")
    pool_map(check_one, todo, j)


def cleanup():
    for d in os.listdir(MSW):
        if d.startswith("wt"):
            sh("git -C %s worktree remove --force %s" % (REPO, os.path.join(MSW, d)), "/")
    sh("git -C %s worktree prune" % REPO, "/")


if __name__ == "__main__":
    os.makedirs(MSW, exist_ok=True)
    cmd = sys.argv[1]
    j = 4
    rest = sys.argv[2:]
    if "-j" in rest:
        i = rest.index("-j"); j = int(rest[i + 1]); rest = rest[:i] + rest[i + 2:]
    if cmd == "gen":
        gen()
    elif cmd == "filter":
        do_filter(j); cleanup()
    elif cmd == "check":
        do_check(j, rest); cleanup()
    elif cmd == "cleanup":
        cleanup()
