#!/bin/bash
# usage: tools/eval_round5.sh <outdir> <id>...   *_m* = mutants (declared property), *_e* = equivalents (declared properties + C10 + C12 + C11)
out="$1"; shift
for id in "$@"; do
  d="$out/$id"; props=$(tr -s ' \n' ' ' < "$d/PROPERTY")
  echo "== $id ($props)"
  if [[ "$id" == *_m* ]]; then
    if [ -f "$d/run_demo.sh" ]; then /verif/tools/confirm_demo.sh "$d" "$id" 2>&1 | tail -1 | sed 's/^/   /'
    elif ls "$d"/zz_demo*_test.go >/dev/null 2>&1; then /verif/tools/confirm_mutant.sh "$d" "$id" 2>&1 | tail -1 | sed 's/^/   /'
    else echo "   (no runnable demonstration)"; fi
    p1=$(echo $props | cut -d' ' -f1)
    timeout 6000 /verif/tools/try_mutant_wt.sh "$d/patch.diff" $p1 2>&1 | sed -u 's/^/   /' | cut -c1-330
  else
    timeout 9000 /verif/tools/try_mutant_wt.sh "$d/patch.diff" $props ${EXTRA:-} 2>&1 | sed -u 's/^/   /' | cut -c1-330
  fi
done
