package main

import (
	"crypto/rand"
	"fmt"
	"net/url"
	"reflect"
	"sync"
	"time"

	"github.com/ja7ad/otp"
)

func yMap(e *Event) map[string]any {
	if m, ok := e.Y.(map[string]any); ok {
		return m
	}
	m := map[string]any{}
	e.Y = m
	return m
}

// ---------------- helpers (C17) ----------------
func doTo8BE(scn string, v uint64) Event {
	e := newEvent("To8BE", scn)
	e.X = map[string]any{"v": W64(v)}
	invoke(&e, func() result { return result{val: otp.To8ByteBigEndian(v)} })
	return e
}

func doParseDec(scn, s string, which int) Event {
	op := "ParseDec8"
	if which == 1 {
		op = "ParseDec64"
	}
	e := newEvent(op, scn)
	e.X = map[string]any{"s": S(s)}
	invoke(&e, func() result {
		var b []byte
		var err error
		if which == 1 {
			b, err = otp.ParseDecimal64BigEndian(s)
		} else {
			b, err = otp.ParseDecimalToBigEndian8(s)
		}
		return result{val: b, err: err}
	})
	return e
}

func doLeftPadHex(scn, s string, w int) Event {
	e := newEvent("LeftPadHex", scn)
	e.X = map[string]any{"s": S(s), "w": clamp32(w)}
	invoke(&e, func() result { return result{val: []byte(otp.LeftPadHex(s, w))} })
	return e
}

func doMustHexPadLeft(scn, s string, size int) Event {
	e := newEvent("MustHexPadLeft", scn)
	e.X = map[string]any{"s": S(s), "size": clamp32(size)}
	invoke(&e, func() result { return result{val: otp.MustHexPadLeft(s, size)} })
	return e
}

func doParseHexTimestamp(scn, s string) Event {
	e := newEvent("ParseHexTimestamp", scn)
	e.X = map[string]any{"s": S(s)}
	invoke(&e, func() result {
		b, err := otp.ParseHexTimestamp(s)
		return result{val: b, err: err}
	})
	return e
}

func doParseDecimalChallenge(scn, s string) Event {
	e := newEvent("ParseDecimalChallenge", scn)
	e.X = map[string]any{"s": S(s)}
	invoke(&e, func() result {
		b, err := otp.ParseDecimalChallengeRFC6287(s)
		return result{val: b, err: err}
	})
	return e
}

func doHexInputToOCRA(scn string, f [5]string) Event {
	e := newEvent("HexInputToOCRA", scn)
	e.X = map[string]any{"f": []B{S(f[0]), S(f[1]), S(f[2]), S(f[3]), S(f[4])}}
	e.Y = map[string]any{"f": []B{{}, {}, {}, {}, {}}}
	invoke(&e, func() result {
		in, err := otp.HexInputToOCRA(f[0], f[1], f[2], f[3], f[4])
		return result{err: err, y: map[string]any{"f": []B{nz(in.Counter), nz(in.Challenge), nz(in.Password), nz(in.SessionInfo), nz(in.Timestamp)},
			"nil": []bool{in.Counter == nil, in.Challenge == nil, in.Password == nil, in.SessionInfo == nil, in.Timestamp == nil}}}
	})
	return e
}

// numeric question through the helper, then generation (end-to-end law of C17)
func doOCRAQuestion(scn, secret string, sa suiteArg, q string, in otp.OCRAInput) Event {
	e := newEvent("OCRAQuestion", scn)
	e.Secret = S(secret)
	e.X = map[string]any{"su": sa.su, "in": inOf(in), "q": S(q)}
	// oracle: the harness' belief of the RFC encoding uses the helper-independent big-number conversion below
	in2 := in
	in2.Challenge = beliefQuestion(q)
	e.Orc = ocraOracle(secret, sa, in2)
	invoke(&e, func() result {
		ch, err := otp.ParseDecimalChallengeRFC6287(q)
		if err != nil {
			return result{err: err}
		}
		in3 := in
		in3.Challenge = ch
		s, err := otp.GenerateOCRA(secret, sa.s, in3)
		return result{val: []byte(s), err: err}
	})
	return e
}

// beliefQuestion: decimal -> hex nibbles -> right padded to 128 bytes (schoolbook, no math/big)
func beliefQuestion(q string) []byte {
	nib := []int{0}
	for _, ch := range q {
		if ch < '0' || ch > '9' {
			return nil
		}
		carry := int(ch - '0')
		for i := len(nib) - 1; i >= 0; i-- {
			v := nib[i]*10 + carry
			nib[i] = v % 16
			carry = v / 16
		}
		for carry > 0 {
			nib = append([]int{carry % 16}, nib...)
			carry /= 16
		}
	}
	for len(nib) > 1 && nib[0] == 0 {
		nib = nib[1:]
	}
	for len(nib) < 256 {
		nib = append(nib, 0)
	}
	out := make([]byte, 128)
	for i := range out {
		out[i] = byte(nib[2*i]<<4 | nib[2*i+1])
	}
	return out
}

// ---------------- enum helpers ----------------
func doDigitsFromStr(scn, s string) Event {
	e := newEvent("DigitsFromStr", scn)
	e.X = map[string]any{"s": S(s)}
	invoke(&e, func() result { return result{val: []byte{byte(otp.DigitsFromStr(s).Int())}} })
	return e
}

func doAlgorithmFromStr(scn, s string) Event {
	e := newEvent("AlgorithmFromStr", scn)
	e.X = map[string]any{"s": S(s)}
	invoke(&e, func() result { return result{val: []byte{byte(otp.AlgorithmFromStr(s))}} })
	return e
}

func doAlgString(scn string, a uint8) Event {
	e := newEvent("AlgString", scn)
	e.X = map[string]any{"a": int(a)}
	invoke(&e, func() result { return result{val: []byte(otp.Algorithm(a).String())} })
	return e
}

func doTimeCounter(scn string, t time.Time, period uint) Event {
	e := newEvent("TimeCounter", scn)
	e.Sec, e.Period = W64(uint64(t.Unix())), W64(uint64(period))
	invoke(&e, func() result { return result{val: W64(otp.TimeCounterFunc(t, period))} })
	return e
}

// ---------------- URLs (C16) ----------------
type UP struct {
	Kind    string `json:"kind"`
	KindB   B      `json:"kindb"`
	Issuer  B      `json:"issuer"`
	Account B      `json:"account"`
	Secret  B      `json:"secret"`
	Digits  int    `json:"digits"`
	Alg     int    `json:"alg"`
	Period  B      `json:"period"`
}

func doURLRoundTrip(scn, kind, issuer, account, secret string, digits, alg uint8, period uint64) Event {
	e := newEvent("URLRoundTrip", scn)
	e.X = map[string]any{"p": UP{kind, S(kind), S(issuer), S(account), S(secret), int(digits), int(alg), W64(period)}}
	blank := map[string]any{"genok": false, "url": B{}, "scheme": B{}, "host": B{}, "parseok": false, "issuer": B{}, "account": B{},
		"secret": B{}, "digits": 0, "alg": 0, "period": W64(0)}
	e.Y = blank
	invoke(&e, func() result {
		y := map[string]any{}
		for k, v := range blank {
			y[k] = v
		}
		p := otp.URLParam{Issuer: issuer, AccountName: account, Secret: secret, Digits: otp.Digits(digits), Algorithm: otp.Algorithm(alg), Period: uint(period)}
		var u *url.URL
		var err error
		if kind == "totp" {
			u, err = otp.GenerateTOTPURL(p)
		} else {
			u, err = otp.GenerateHOTPURL(p)
		}
		if err != nil || u == nil {
			return result{err: err, y: y}
		}
		y["genok"] = true
		text := u.String()
		y["url"], y["scheme"], y["host"] = S(text), S(u.Scheme), S(u.Host)
		u2, perr := url.Parse(text)
		if perr != nil {
			return result{y: y}
		}
		back, perr := otp.ParseOTPAuthURL(u2)
		if perr != nil || back == nil {
			return result{y: y}
		}
		y["parseok"] = true
		y["issuer"], y["account"], y["secret"] = S(back.Issuer), S(back.AccountName), S(back.Secret)
		y["digits"], y["alg"], y["period"] = int(back.Digits), int(back.Algorithm), W64(uint64(back.Period))
		return result{y: y}
	})
	return e
}

func doURLParse(scn, typ string, hasDigits bool, digitsText string, hasPeriod bool, periodText string) Event {
	e := newEvent("URLParse", scn)
	e.X = map[string]any{"type": S(typ), "hasDigits": hasDigits, "digitsText": S(digitsText), "hasPeriod": hasPeriod, "periodText": S(periodText)}
	e.Y = map[string]any{"ok": false, "digits": 0, "period": W64(0)}
	invoke(&e, func() result {
		q := url.Values{}
		q.Set("secret", "JBSWY3DPEHPK3PXP")
		q.Set("issuer", "Iss")
		if hasDigits {
			q.Set("digits", digitsText)
		}
		if hasPeriod {
			q.Set("period", periodText)
		}
		u := &url.URL{Scheme: "otpauth", Host: typ, Path: "/Iss:acc", RawQuery: q.Encode()}
		u2, err := url.Parse(u.String())
		if err != nil {
			return result{err: err, y: map[string]any{"ok": false, "digits": 0, "period": W64(0)}}
		}
		p, err := otp.ParseOTPAuthURL(u2)
		if err != nil || p == nil {
			return result{err: err, y: map[string]any{"ok": false, "digits": 0, "period": W64(0)}}
		}
		return result{y: map[string]any{"ok": true, "digits": int(p.Digits), "period": W64(uint64(p.Period))}}
	})
	return e
}

func doParseURLRaw(scn string, u *url.URL) Event {
	e := newEvent("ParseURLRaw", scn)
	invoke(&e, func() result {
		_, err := otp.ParseOTPAuthURL(u)
		return result{err: err}
	})
	return e
}

// ---------------- random secrets (C08) ----------------
// recStream replaces crypto/rand.Reader: deterministic content, every Read logged with its offset.
type recStream struct {
	mu    sync.Mutex
	pos   int
	kind  string // lin | rnd
	seed  uint64
	short bool
	reads map[int64][][2]int // goroutine-call id -> reads (attributed through curCall)
	rng   uint64
	gate  *rendezvous
}

func (r *recStream) byteAt(i int) byte {
	if r.kind == "lin" {
		return byte((i*7 + 13) % 256)
	}
	// splitmix-style hash of (seed, i): content is a function of the offset
	z := r.seed + uint64(i)*0x9E3779B97F4A7C15
	z = (z ^ (z >> 30)) * 0xBF58476D1CE4E5B9
	z = (z ^ (z >> 27)) * 0x94D049BB133111EB
	return byte(z ^ (z >> 31))
}

type readLog struct {
	reads [][2]int
	bytes []byte
}

var curReads sync.Map // goroutine key -> *readLog

// rendezvous is a scheduler gate inside the substituted random source: a Read returns only when the other calls
// of the round have read too (or after a timeout), so that all of them are between "bytes taken" and "secret
// encoded" at the same moment. Scratch memory shared between calls then shows with certainty, not by luck.
type rendezvous struct {
	mu      sync.Mutex
	n, here int
	ch      chan struct{}
}

func (b *rendezvous) arm(n int) {
	b.mu.Lock()
	b.n, b.here, b.ch = n, 0, make(chan struct{})
	b.mu.Unlock()
}

func (b *rendezvous) wait() {
	b.mu.Lock()
	b.here++
	ch := b.ch
	if b.here >= b.n {
		close(ch)
		b.here, b.ch = 0, make(chan struct{})
		b.mu.Unlock()
		return
	}
	b.mu.Unlock()
	select {
	case <-ch:
	case <-time.After(100 * time.Millisecond):
	}
}

func (r *recStream) Read(p []byte) (int, error) {
	n := r.read(p)
	if g := r.gate; g != nil && currentLog() != nil {
		g.wait()
	}
	return n, nil
}

func (r *recStream) read(p []byte) int {
	r.mu.Lock()
	defer r.mu.Unlock()
	n := len(p)
	if r.short && n > 1 {
		r.rng = r.rng*6364136223846793005 + 1442695040888963407
		n = 1 + int((r.rng>>33)%7)
		if n > len(p) {
			n = len(p)
		}
	}
	for i := 0; i < n; i++ {
		p[i] = r.byteAt(r.pos + i)
	}
	if lg := currentLog(); lg != nil {
		lg.reads = append(lg.reads, [2]int{r.pos, n})
		lg.bytes = append(lg.bytes, p[:n]...)
	}
	r.pos += n
	return n
}

// attribution of reads to calls: each call runs on its own goroutine and registers its log under
// the goroutine's identity obtained from a per-call token stored in a goroutine-local map keyed by
// the address of a stack variable is not available in Go; instead the calls of a batch are
// serialised around the Read by the stream mutex and attributed via a token the caller sets
// while holding callMu (sequential) or via per-goroutine streams is not possible (global Reader).
// We therefore attribute by goroutine id parsed from runtime.Stack (cheap enough here).
func currentLog() *readLog {
	if v, ok := curReads.Load(goid()); ok {
		return v.(*readLog)
	}
	return nil
}

func doRandomSecret(scn string, alg uint8) Event {
	e := newEvent("RandomSecret", scn)
	e.X = map[string]any{"alg": int(alg), "conc": false}
	lg := &readLog{}
	e.Y = map[string]any{"reads": [][2]int{}, "bytes": B{}}
	invokeOn(&e, func() { curReads.Store(goid(), lg) }, func() { curReads.Delete(goid()) }, func() result {
		s, err := otp.RandomSecret(otp.Algorithm(alg))
		return result{val: []byte(s), err: err}
	})
	reads := lg.reads
	if reads == nil {
		reads = [][2]int{}
	}
	y := yMap(&e)
	y["reads"], y["bytes"] = reads, nz(lg.bytes)
	return e
}

func installStream(kind string, seed uint64, short bool) *recStream {
	s := &recStream{kind: kind, seed: seed, short: short, rng: seed | 1}
	rand.Reader = s
	return s
}

// ---------------- frames (C12) ----------------
func globalsDigest() []byte {
	s := fmt.Sprintf("%+v|%+v|%x|", *otp.DefaultHOTPParam, *otp.DefaultTOTPParam, reflect.ValueOf(otp.TimeCounterFunc).Pointer())
	for _, n := range listSuites() {
		s += fmt.Sprintf("%s=%+v;", n, otp.SuiteConfigFromRaws(n))
	}
	for a := 0; a < 4; a++ {
		s += otp.Algorithm(a).String() + ","
	}
	return []byte(s)
}
