package main

import (
	"bytes"
	"runtime"
	"strconv"
)

// goid returns the current goroutine's id (used only to attribute stream reads to calls).
func goid() int64 {
	var buf [64]byte
	n := runtime.Stack(buf[:], false)
	f := bytes.Fields(buf[:n])
	if len(f) < 2 {
		return -1
	}
	id, _ := strconv.ParseInt(string(f[1]), 10, 64)
	return id
}
