//go:build verif

package main

import (
	"bufio"
	"encoding/json"
	"flag"
	"fmt"
	"math/rand"
	"os"
	"path/filepath"
	"runtime"
	"strings"
	"sync"
	"time"
	"unsafe"

	"github.com/ja7ad/otp"
)

// Deterministic replay of TLC-generated behaviours of Pools on the real code (property C11).

type schedStep struct {
	A string `json:"a"`
	C int    `json:"c"`
	K string `json:"k"`
}

type poolEvent struct {
	Ev   string `json:"ev"`
	Sid  int    `json:"sid"`
	C    int    `json:"c"`
	Buf  int    `json:"buf"`
	Kind string `json:"kind"`
	Same bool   `json:"same"`
	P    B      `json:"p"`
	Call Event  `json:"call"`
}

type arrival struct {
	c  int
	at string // new | write | sum
	p  []byte
}

type writeObs struct {
	p    []byte
	addr uintptr
	cap  int
}

type replayer struct {
	mu      sync.Mutex
	byGoid  map[int64]int
	arrive  chan arrival
	release map[int]chan struct{}
	obsCh   map[int]chan writeObs
	done    map[int]chan Event
	state   map[int]string // idle | new | write | sum
	kind    map[int]string
	call    map[int]Event
	ids     map[uintptr]int
	advHeld []any
	pool    string // hotp | ocra
	rng     *rand.Rand
	out     *bufio.Writer
	sid     int
	nEv     int
	retain  []retained
	notes   []string

	pending  [][]byte
	degraded bool
	kept     int
}

type retained struct {
	c    int
	s    string
	copy string
}

func (r *replayer) gate(ev string, slot int, h *obsHash, p []byte) {
	r.mu.Lock()
	c, ok := r.byGoid[goid()]
	r.mu.Unlock()
	if !ok {
		return
	}
	r.arrive <- arrival{c: c, at: ev, p: p}
	<-r.release[c]
	if ev == "write" {
		o := writeObs{p: append([]byte{}, p...), cap: cap(p)}
		if len(p) > 0 {
			o.addr = uintptr(unsafe.Pointer(&p[0]))
		}
		r.obsCh[c] <- o
	}
}

func (r *replayer) emit(e poolEvent) {
	e.Sid = r.sid
	if e.P == nil {
		e.P = B{}
	}
	if e.Kind == "" {
		e.Kind = "-"
	}
	if e.Call.Op == "" {
		e.Call = newEvent("none", "")
	}
	data, err := json.Marshal(e)
	if err != nil {
		panic(err)
	}
	r.pending = append(r.pending, data)
}

// flush writes the events of the schedule just replayed, unless some call of it could not be gated: pool
// traffic of ungated calls is invisible, so such a schedule cannot be validated against Pools and is dropped.
func (r *replayer) flush() {
	if !r.degraded {
		for _, d := range r.pending {
			r.out.Write(d)
			r.out.WriteByte('\n')
			r.nEv++
		}
		r.kept++
	}
	r.pending = nil
	r.degraded = false
}

func (r *replayer) idOf(addr uintptr) int {
	if addr == 0 {
		return 0
	}
	if id, ok := r.ids[addr]; ok {
		return id
	}
	id := len(r.ids) + 1
	r.ids[addr] = id
	return id
}

func (r *replayer) thePool() *sync.Pool {
	a, b := pools()
	if r.pool == "hotp" {
		return a
	}
	return b
}

func itemAddr(x any) uintptr {
	switch v := x.(type) {
	case *[8]byte:
		return uintptr(unsafe.Pointer(v))
	case *[]byte:
		if cap(*v) > 0 {
			return uintptr(unsafe.Pointer(&(*v)[:1][0]))
		}
	}
	return 0
}

func drainPool(p *sync.Pool) []any {
	saved := p.New
	p.New = nil
	var out []any
	for i := 0; i < 10000; i++ {
		x := p.Get()
		if x == nil {
			break
		}
		out = append(out, x)
	}
	p.New = saved
	return out
}

// startCall launches the real library call of caller c on its own goroutine and waits until it
// blocks in the HMAC constructor gate (Get and the filling of the buffer have happened by then).
func (r *replayer) startCall(c int, kind string) bool {
	key := make([]byte, 20)
	r.rng.Read(key)
	secret := b32(key)
	var run func() Event
	if r.pool == "hotp" {
		kind = "short"
		ctr := r.rng.Uint64()
		p := P{Digits: uint8(1 + r.rng.Intn(10)), Alg: uint8(r.rng.Intn(3))}
		run = func() Event {
			e := newEvent("GenerateHOTP", fmt.Sprintf("C11/s%d/c%d", r.sid, c))
			e.Secret, e.Ctr = S(secret), W64(ctr)
			p.fill(&e)
			var o orcSet
			o.add(int(p.Alg), key, W64(ctr))
			e.Orc = o.entries()
			directCall(&e, func() result {
				s, err := otp.GenerateHOTP(secret, ctr, p.ptr())
				return result{val: []byte(s), err: err, ret: s}
			})
			return e
		}
	} else {
		rawLen := 20
		mask := 1 | 2
		if kind == "long" {
			rawLen = 150 + r.rng.Intn(200) // suite string + fields exceed the pooled buffer's 256-byte capacity
			mask = 1 | 2 | 8
		} else if r.rng.Intn(2) == 0 {
			mask = 2
		}
		raw := make([]byte, rawLen)
		r.rng.Read(raw)
		cf := Cfg{Raw: B(raw), Hash: r.rng.Intn(3), Digits: 4 + r.rng.Intn(7), C: mask&1 != 0, Q: true, S: mask&8 != 0, Chal: 1}
		if r.sid%4 >= 2 {
			cf = r.sharedCfg(kind) // all calls of this schedule with this kind use ONE suite
		}
		in := otp.OCRAInput{Counter: W64(r.rng.Uint64()), Challenge: make([]byte, 8+r.rng.Intn(100)), SessionInfo: make([]byte, r.rng.Intn(100))}
		r.rng.Read(in.Challenge)
		r.rng.Read(in.SessionInfo)
		if kind != "long" && 1+rawLen+8+128 > 256 {
			panic("short message does not fit")
		}
		sa := cfgSuiteArg(cf)
		run = func() Event {
			e := newEvent("GenerateOCRA", fmt.Sprintf("C11/s%d/c%d", r.sid, c))
			e.Secret = S(secret)
			e.X = map[string]any{"su": sa.su, "in": inOf(in)}
			e.Orc = ocraOracle(secret, sa, in)
			directCall(&e, func() result {
				s, err := otp.GenerateOCRA(secret, sa.s, in)
				return result{val: []byte(s), err: err, ret: s}
			})
			return e
		}
	}
	r.kind[c] = kind
	ready := make(chan struct{})
	go func() {
		r.mu.Lock()
		r.byGoid[goid()] = c
		r.mu.Unlock()
		close(ready)
		e := run()
		r.mu.Lock()
		delete(r.byGoid, goid())
		r.mu.Unlock()
		r.done[c] <- e
	}()
	<-ready
	a, fin := r.waitArrival(c)
	if fin != nil || a.at != "new" {
		r.degraded = true
		if len(r.notes) < 5 {
			r.notes = append(r.notes, fmt.Sprintf("schedule %d dropped: the %s call of caller %d did not reach the constructor gate", r.sid, r.pool, c))
		}
		if fin != nil {
			r.call[c] = *fin
		}
		return false
	}
	r.state[c] = "new"
	r.emit(poolEvent{Ev: "Begin", C: c, Kind: kind})
	return true
}

// directCall runs fn on the current goroutine under recover and fills the reply part of the event.
func directCall(e *Event, fn func() result) {
	defer func() {
		if p := recover(); p != nil {
			e.Kind = "panic"
			e.Err = S(fmt.Sprint(p))
		}
	}()
	res := fn()
	if res.val != nil {
		e.Val = B(res.val)
	}
	e.ret = res.ret
	e.OK = res.ok
	if res.err != nil {
		e.Kind, e.HasErr, e.Err = "error", true, S(res.err.Error())
	}
}

// waitArrival waits for caller c's next gate arrival or its completion.
func (r *replayer) waitArrival(c int) (arrival, *Event) {
	for {
		select {
		case a := <-r.arrive:
			if a.c == c {
				return a, nil
			}
			panic("arrival of a caller that was not released")
		case e := <-r.done[c]:
			return arrival{}, &e
		case <-time.After(60 * time.Second):
			panic(fmt.Sprintf("caller %d neither arrived at a gate nor finished", c))
		}
	}
}

func (r *replayer) stepNew(c int) {
	if r.state[c] != "new" {
		return
	}
	r.release[c] <- struct{}{}
	a, fin := r.waitArrival(c)
	if fin != nil || a.at != "write" {
		panic("unexpected gate order after constructor")
	}
	r.state[c] = "write"
	r.emit(poolEvent{Ev: "New", C: c, Kind: r.kind[c]})
}

func (r *replayer) stepWrite(c int) {
	if r.state[c] != "write" {
		return
	}
	var all []byte
	var first writeObs
	n := 0
	for {
		r.release[c] <- struct{}{}
		o := <-r.obsCh[c]
		if n == 0 {
			first = o
		}
		n++
		all = append(all, o.p...)
		a, fin := r.waitArrival(c)
		if fin != nil {
			panic("call finished without Sum")
		}
		if a.at == "sum" {
			break
		}
	}
	r.state[c] = "sum"
	buf := r.idOf(first.addr)
	if r.pool == "ocra" && first.cap > 256 {
		buf = 0 // the message outgrew the pooled buffer: private memory
	}
	// the call's arguments are needed by the specification to compute the call's own message
	r.emit(poolEvent{Ev: "Write", C: c, Kind: r.kind[c], Buf: buf, P: B(all), Call: r.pendingArgs(c)})
}

// pendingArgs returns the argument part of the in-flight call (filled when the call was built).
func (r *replayer) pendingArgs(c int) Event { return r.call[c] }

func (r *replayer) stepSum(c int) {
	if r.state[c] != "sum" {
		return
	}
	r.release[c] <- struct{}{}
	a, fin := r.waitArrival(c)
	if fin == nil {
		panic("unexpected gate after Sum: " + a.at)
	}
	r.state[c] = "idle"
	r.retain = append(r.retain, retained{c: c, s: fin.ret, copy: string(append([]byte{}, fin.ret...))})
	r.emit(poolEvent{Ev: "Finish", C: c, Kind: r.kind[c], Call: *fin})
}

func (r *replayer) runSchedule(steps []schedStep) {
	r.ids = map[uintptr]int{}
	r.retain = nil
	for _, st := range steps {
		switch st.A {
		case "Get":
			if r.state[st.C] == "" || r.state[st.C] == "idle" {
				r.prepareArgs(st.C, st.K)
			}
		case "MacNew":
			r.stepNew(st.C)
		case "MacWrite":
			r.stepWrite(st.C)
		case "MacSum":
			r.stepSum(st.C)
		case "AdvGet":
			items := drainPool(r.thePool())
			for _, x := range items {
				r.advHeld = append(r.advHeld, x)
				r.emit(poolEvent{Ev: "AdvGet", Buf: r.idOf(itemAddr(x))})
			}
			r.emit(poolEvent{Ev: "AdvEmpty"})
		case "AdvScribble":
			for _, x := range r.advHeld {
				switch v := x.(type) {
				case *[8]byte:
					for i := range v {
						v[i] = 0xEE
					}
				case *[]byte:
					full := (*v)[:cap(*v)]
					for i := range full {
						full[i] = 0xEE
					}
					*v = full[:r.rng.Intn(len(full)+1)]
				}
				r.emit(poolEvent{Ev: "AdvScribble", Buf: r.idOf(itemAddr(x))})
			}
		case "AdvPut":
			for _, x := range r.advHeld {
				r.emit(poolEvent{Ev: "AdvPut", Buf: r.idOf(itemAddr(x))})
				r.thePool().Put(x)
			}
			r.advHeld = nil
		case "GC":
			runtime.GC()
			runtime.GC()
			r.emit(poolEvent{Ev: "GC"})
		}
	}
	// finish what is still in flight
	for c := 1; c <= 8; c++ {
		r.stepNew(c)
		r.stepWrite(c)
		r.stepSum(c)
	}
	// results returned earlier are re-read after all the later calls, scribbles and collections
	for _, x := range r.retain {
		r.emit(poolEvent{Ev: "Recheck", C: x.c, Same: x.s == x.copy})
	}
	// empty and discard the real pools so that the next schedule starts from the model's initial state
	r.advHeld = nil
	a, b := pools()
	drainPool(a)
	drainPool(b)
	runtime.GC()
	runtime.GC()
	drainPool(a)
	drainPool(b)
	r.emit(poolEvent{Ev: "Reset"})
	r.flush()
}

// prepareArgs builds the call, remembers its argument part and starts it.
func (r *replayer) prepareArgs(c int, kind string) {
	// the arguments are created inside startCall; to expose them for the Write event the call is
	// first built "dry" by running startCall, which stores the finished event at completion. The
	// argument part is reconstructed from the same random stream: run the builder once here.
	seed := r.rng.Int63()
	save := r.rng
	r.rng = rand.New(rand.NewSource(seed))
	r.call[c] = r.buildArgs(c, kind)
	r.rng = rand.New(rand.NewSource(seed))
	r.startCall(c, kind)
	r.rng = save
}

// buildArgs mirrors the argument construction of startCall without calling the library.
func (r *replayer) buildArgs(c int, kind string) Event {
	key := make([]byte, 20)
	r.rng.Read(key)
	secret := b32(key)
	if r.pool == "hotp" {
		ctr := r.rng.Uint64()
		p := P{Digits: uint8(1 + r.rng.Intn(10)), Alg: uint8(r.rng.Intn(3))}
		e := newEvent("GenerateHOTP", "")
		e.Secret, e.Ctr = S(secret), W64(ctr)
		p.fill(&e)
		return e
	}
	rawLen := 20
	mask := 1 | 2
	if kind == "long" {
		rawLen = 150 + r.rng.Intn(200)
		mask = 1 | 2 | 8
	} else if r.rng.Intn(2) == 0 {
		mask = 2
	}
	raw := make([]byte, rawLen)
	r.rng.Read(raw)
	cf := Cfg{Raw: B(raw), Hash: r.rng.Intn(3), Digits: 4 + r.rng.Intn(7), C: mask&1 != 0, Q: true, S: mask&8 != 0, Chal: 1}
	if r.sid%4 >= 2 {
		cf = r.sharedCfg(kind)
	}
	in := otp.OCRAInput{Counter: W64(r.rng.Uint64()), Challenge: make([]byte, 8+r.rng.Intn(100)), SessionInfo: make([]byte, r.rng.Intn(100))}
	r.rng.Read(in.Challenge)
	r.rng.Read(in.SessionInfo)
	e := newEvent("GenerateOCRA", "")
	e.Secret = S(secret)
	e.X = map[string]any{"su": cfgSuiteArg(cf).su, "in": inOf(in)}
	return e
}

// sharedCfg is the one suite all OCRA calls of kind `kind` use in the current schedule (deterministic in the
// schedule id, independent of the per-call random stream).
func (r *replayer) sharedCfg(kind string) Cfg {
	n := 20
	mask := 1 | 2
	if kind == "long" {
		n = 220
		mask = 1 | 2 | 8
	}
	raw := make([]byte, n)
	for i := range raw {
		raw[i] = byte(65 + (r.sid*7+i*3)%26)
	}
	return Cfg{Raw: B(raw), Hash: r.sid % 3, Digits: 4 + r.sid%7, C: mask&1 != 0, Q: true, S: mask&8 != 0, Chal: 1}
}

func cmdReplayPools(args []string) {
	fs := flag.NewFlagSet("replay-pools", flag.ExitOnError)
	sched := fs.String("sched", "", "file with one JSON schedule per line")
	out := fs.String("out", "", "output directory")
	seed := fs.Int64("seed", 1, "seed")
	chunk := fs.Int("chunk", 20, "schedules per trace file")
	onlySid := fs.Int("only-sid", 0, "replay only this schedule (1-based)")
	fs.Parse(args)
	runtime.GOMAXPROCS(1)
	installHooks()
	f, err := os.Open(*sched)
	if err != nil {
		fmt.Fprintln(os.Stderr, err)
		os.Exit(2)
	}
	defer f.Close()
	sc := bufio.NewScanner(f)
	sc.Buffer(make([]byte, 1<<20), 1<<24)
	r := &replayer{byGoid: map[int64]int{}, arrive: make(chan arrival), release: map[int]chan struct{}{}, obsCh: map[int]chan writeObs{},
		done: map[int]chan Event{}, state: map[int]string{}, kind: map[int]string{}, call: map[int]Event{}, rng: rand.New(rand.NewSource(*seed))}
	for c := 1; c <= 8; c++ {
		r.release[c] = make(chan struct{})
		r.obsCh[c] = make(chan writeObs, 1)
		r.done[c] = make(chan Event, 1)
	}
	obs.gate = r.gate
	var files []string
	var w *os.File
	n := 0
	for sc.Scan() {
		line := strings.TrimSpace(sc.Text())
		if line == "" {
			continue
		}
		var steps []schedStep
		if err := json.Unmarshal([]byte(line), &steps); err != nil {
			fmt.Fprintln(os.Stderr, "bad schedule:", err)
			os.Exit(2)
		}
		if w == nil || (n%*chunk == 0 && *onlySid == 0) {
			if w != nil {
				r.out.Flush()
				w.Close()
			}
			name := filepath.Join(*out, fmt.Sprintf("pools.%03d.ndjson", n / *chunk))
			w, _ = os.Create(name)
			r.out = bufio.NewWriterSize(w, 1<<20)
			files = append(files, name)
		}
		r.sid = n + 1
		if *onlySid != 0 && r.sid != *onlySid {
			n++
			continue
		}
		r.rng = rand.New(rand.NewSource(*seed*100003 + int64(r.sid)))
		r.pool = []string{"hotp", "ocra"}[n%2]
		for c := range r.state {
			r.state[c] = "idle"
		}
		r.runSchedule(steps)
		n++
	}
	if w != nil {
		r.out.Flush()
		w.Close()
	}
	obs.gate = nil
	sum := map[string]any{"schedules": r.kept, "dropped": n - r.kept, "events": r.nEv, "files": files, "notes": r.notes, "hook_mode": hookModeFull()}
	data, _ := json.MarshalIndent(sum, "", " ")
	os.WriteFile(filepath.Join(*out, "replay.json"), data, 0o644)
	fmt.Printf("replayed %d schedules, %d events\n", n, r.nEv)
}

func init() { extraCmds["replay-pools"] = cmdReplayPools }
