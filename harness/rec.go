package main

import (
	"bufio"
	"encoding/binary"
	"encoding/json"
	"fmt"
	"os"
	"path/filepath"
	"strconv"
)

// B is a byte string that serialises as a JSON array of numbers (TLA+ tuple of bytes).
type B []byte

func (b B) MarshalJSON() ([]byte, error) {
	out := make([]byte, 0, 2+4*len(b))
	out = append(out, '[')
	for i, x := range b {
		if i > 0 {
			out = append(out, ',')
		}
		out = strconv.AppendInt(out, int64(x), 10)
	}
	out = append(out, ']')
	return out, nil
}

func (b *B) UnmarshalJSON(data []byte) error {
	var xs []int
	if err := json.Unmarshal(data, &xs); err != nil {
		return err
	}
	*b = make([]byte, len(xs))
	for i, x := range xs {
		(*b)[i] = byte(x)
	}
	return nil
}

func S(s string) B { return B([]byte(s)) }

func W64(v uint64) B {
	var b [8]byte
	binary.BigEndian.PutUint64(b[:], v)
	return B(b[:])
}

// Mac is one observed or oracle HMAC evaluation: [slot/alg, key, msg, sum].
type Mac struct {
	Alg int
	Key B
	Msg B
	Sum B
}

func (m Mac) MarshalJSON() ([]byte, error) {
	return json.Marshal([]any{m.Alg, m.Key, m.Msg, m.Sum})
}

func (m *Mac) UnmarshalJSON(data []byte) error {
	var raw []json.RawMessage
	if err := json.Unmarshal(data, &raw); err != nil {
		return err
	}
	if len(raw) != 4 {
		return fmt.Errorf("mac entry with %d fields", len(raw))
	}
	if err := json.Unmarshal(raw[0], &m.Alg); err != nil {
		return err
	}
	if err := json.Unmarshal(raw[1], &m.Key); err != nil {
		return err
	}
	if err := json.Unmarshal(raw[2], &m.Msg); err != nil {
		return err
	}
	return json.Unmarshal(raw[3], &m.Sum)
}

// Event is one completed call of the real code. Every field is always present so that the
// trace specification can bind it without case distinctions.
type Event struct {
	ID    int    `json:"id"`
	Scn   string `json:"scn"`
	Op    string `json:"op"`
	Grp   int    `json:"grp"`
	First bool   `json:"first"`
	Plan  int    `json:"plan"`  // C11: index in the workload plan (0 = none)
	Phase string `json:"phase"` // solo | conc | ""

	// arguments
	Secret B    `json:"secret"`
	Code   B    `json:"code"`
	Ctr    B    `json:"ctr"`
	Sec    B    `json:"sec"`
	Step   B    `json:"step"`
	PNil   bool `json:"pnil"`
	Digits int  `json:"digits"`
	Alg    int  `json:"alg"`
	Skew   B    `json:"skew"`
	Period B    `json:"period"`
	X      any  `json:"x"` // operation-specific arguments (OCRA, URL, helpers, ...)

	// reply
	Kind   string `json:"kind"` // value | error | panic | hang | abort
	OK     bool   `json:"ok"`
	HasErr bool   `json:"haserr"`
	Val    B      `json:"val"`
	Err    B      `json:"err"`
	Y      any    `json:"y"` // operation-specific reply

	// observations through the verif hook (macn = -1: not observed)
	Mac  []Mac `json:"mac"`
	MacN int   `json:"macn"`

	// HMAC table computed by the harness with crypto/hmac
	Orc []Mac `json:"orc"`

	// replay information (ignored by the specification)
	R any `json:"r,omitempty"`

	ret string // the returned string itself (not serialised): C12 result-stability clause
}

func newEvent(op, scn string) Event {
	return Event{Op: op, Scn: scn, Secret: B{}, Code: B{}, Ctr: W64(0), Sec: W64(0), Step: W64(0),
		Skew: W64(0), Period: W64(0), X: map[string]any{}, Y: map[string]any{}, Kind: "value",
		Val: B{}, Err: B{}, Mac: []Mac{}, MacN: -1, Orc: []Mac{}}
}

// Recorder writes events round-robin... no: sequentially into shard files of bounded size,
// keeping spelling groups and stateful sequences inside one shard.
type Recorder struct {
	dir      string
	prefix   string
	perShard int
	shard    int
	inShard  int
	total    int
	w        *bufio.Writer
	f        *os.File
	files    []string
	seen     map[string]bool
	noSplit  bool
	only     map[string]bool
	Samples  []Event
}

func NewRecorder(dir, prefix string, perShard int) *Recorder {
	return &Recorder{dir: dir, prefix: prefix, perShard: perShard, seen: map[string]bool{}}
}

func (r *Recorder) open() {
	name := filepath.Join(r.dir, fmt.Sprintf("%s.%03d.ndjson", r.prefix, r.shard))
	f, err := os.Create(name)
	if err != nil {
		panic(err)
	}
	r.f = f
	r.w = bufio.NewWriterSize(f, 1<<20)
	r.files = append(r.files, name)
	r.inShard = 0
}

func (r *Recorder) closeShard() {
	if r.f != nil {
		r.w.Flush()
		r.f.Close()
		r.f = nil
		r.shard++
	}
}

// Hold keeps the following events in the current shard until Release.
func (r *Recorder) Hold() {
	if r.f != nil && r.inShard >= r.perShard {
		r.closeShard()
	}
	r.noSplit = true
}
func (r *Recorder) Release() { r.noSplit = false }

// Dup reports whether a scenario key was already recorded (distinctness of cases).
func (r *Recorder) Dup(key string) bool {
	if r.seen[key] {
		return true
	}
	r.seen[key] = true
	return false
}

func (r *Recorder) Emit(e Event) {
	if e.Kind == "skipped" {
		return
	}
	if freshMode {
		e.Scn = "F:" + e.Scn
	}
	if r.only != nil && !r.only[e.Scn] {
		return
	}
	if r.f != nil && r.inShard >= r.perShard && !r.noSplit {
		r.closeShard()
	}
	if r.f == nil {
		r.open()
	}
	r.total++
	e.ID = r.total
	data, err := json.Marshal(e)
	if err != nil {
		panic(err)
	}
	r.w.Write(data)
	r.w.WriteByte('\n')
	r.inShard++
	if len(r.Samples) < 3 || (r.total%997 == 0 && len(r.Samples) < 8) {
		r.Samples = append(r.Samples, e)
	}
}

func (r *Recorder) Close() { r.closeShard() }
