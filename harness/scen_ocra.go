package main

import (
	"fmt"
	"strings"

	"github.com/ja7ad/otp"
)

func pwLen(ph int) int {
	switch ph {
	case 1:
		return 20
	case 2:
		return 32
	case 3:
		return 64
	}
	return 20
}

func minChal(ch int) int {
	switch ch {
	case 1, 3, 5:
		return 8
	case 2, 4, 6:
		return 10
	}
	return 0
}

// admissibleInput builds an input the configuration admits; variant selects boundary lengths.
func (c *ctx) admissibleInput(cf Cfg, variant int) otp.OCRAInput {
	var in otp.OCRAInput
	if cf.C {
		in.Counter = W64(c.someCounter())
	}
	if cf.Q {
		lo := minChal(cf.Chal)
		n := lo + c.rng.Intn(129-lo)
		switch variant % 4 {
		case 0:
			n = lo
		case 1:
			n = 128
		case 2:
			n = lo + 1
		}
		in.Challenge = c.randBytes(n)
	}
	if cf.P {
		in.Password = c.randBytes(pwLen(cf.PH))
	}
	if cf.S {
		n := c.rng.Intn(129)
		switch variant % 4 {
		case 0:
			n = 0
		case 1:
			n = 128
		case 2:
			n = 127
		}
		in.SessionInfo = c.randBytes(n)
	}
	if cf.T {
		in.Timestamp = W64(c.rng.Uint64() >> uint(c.rng.Intn(40)))
	}
	return in
}

// junkUnselected fills the fields the configuration does not select with junk / over-long data.
func (c *ctx) junkUnselected(cf Cfg, in otp.OCRAInput) otp.OCRAInput {
	out := in
	junk := func() []byte {
		switch c.rng.Intn(4) {
		case 0:
			return nil
		case 1:
			return []byte{}
		case 2:
			return c.randBytes(1 + c.rng.Intn(300))
		}
		if c.rng.Intn(5) == 0 {
			return c.randBytes([]int{700, 1000, 1024, 1025, 2100}[c.rng.Intn(5)]) // unselected fields are not constrained at all
		}
		return c.randBytes(8)
	}
	if !cf.C {
		out.Counter = junk()
	}
	if !cf.Q {
		out.Challenge = junk()
	}
	if !cf.P {
		out.Password = junk()
	}
	if !cf.S {
		out.SessionInfo = junk()
	}
	if !cf.T {
		out.Timestamp = junk()
	}
	return out
}

func subsetCfg(mask int) Cfg {
	return Cfg{C: mask&1 != 0, Q: mask&2 != 0, P: mask&4 != 0, S: mask&8 != 0, T: mask&16 != 0}
}

// usable hand-built configuration for a field subset
func (c *ctx) handBuilt(mask int, hash, digits int, raw []byte) Cfg {
	cf := subsetCfg(mask)
	cf.Hash, cf.Digits, cf.Raw = hash, digits, B(raw)
	if cf.Q {
		cf.Chal = 1 + c.rng.Intn(6)
	} else if c.rng.Intn(2) == 0 {
		cf.Chal = c.rng.Intn(7)
	}
	if cf.P {
		cf.PH = 1 + c.rng.Intn(3)
	} else if c.rng.Intn(2) == 0 {
		cf.PH = c.rng.Intn(4)
	}
	if cf.T {
		cf.TS = []int{1, 30, 60, 3600}[c.rng.Intn(4)]
	} else if c.rng.Intn(3) == 0 {
		cf.TS = c.rng.Intn(100) - 10
	}
	return cf
}

// grammar strings the parser is expected to accept (numeric challenge formats)
func (c *ctx) grammarName() string {
	hash := []string{"SHA1", "SHA256", "SHA512"}[c.rng.Intn(3)]
	d := 4 + c.rng.Intn(7)
	var toks []string
	if c.rng.Intn(2) == 0 {
		toks = append(toks, "C")
	}
	toks = append(toks, []string{"QN08", "QN10"}[c.rng.Intn(2)])
	if c.rng.Intn(2) == 0 {
		toks = append(toks, []string{"PSHA1", "PSHA256", "PSHA512"}[c.rng.Intn(3)])
	}
	if c.rng.Intn(2) == 0 {
		toks = append(toks, []string{"S", "S064", "S128", "S512"}[c.rng.Intn(4)])
	}
	if c.rng.Intn(2) == 0 {
		toks = append(toks, fmt.Sprintf("T%d%s", 1+c.rng.Intn(59), []string{"S", "M", "H"}[c.rng.Intn(3)]))
	}
	return fmt.Sprintf("OCRA-1:HOTP-%s-%d:%s", hash, d, strings.Join(toks, "-"))
}

func (c *ctx) rawTexts() [][]byte {
	return [][]byte{[]byte("OCRA-1:HOTP-SHA1-6:QN08"), {}, c.randBytes(1 + c.rng.Intn(40)), []byte("x"), c.randBytes(100 + c.rng.Intn(60))}
}

// ---------------- C05 ----------------
func scenC05(c *ctx) {
	id := 0
	gen := func(tag string, sa suiteArg, key []byte, in otp.OCRAInput) {
		id++
		secret := c.someSpelling(key)
		c.rec.Emit(doGenerateOCRA(fmt.Sprintf("C05/%s/%d", tag, id), secret, sa, in))
		// same selected data, junk in the unselected fields: the code must not change
		c.rec.Emit(doGenerateOCRA(fmt.Sprintf("C05/%s/%d/junk", tag, id), secret, sa, c.junkUnselected(sa.su.Cfg, in)))
	}
	// every advertised name
	for _, name := range listSuites() {
		sa, err := rawSuiteArg(name)
		if err != nil {
			continue // C15 reports this
		}
		for v := 0; v < c.n(3, 8); v++ {
			gen("reg/"+name, sa, c.someKey(), c.admissibleInput(sa.su.Cfg, v))
		}
	}
	// parsed grammar strings
	for i := 0; i < c.n(60, 1500); i++ {
		sa, err := rawSuiteArg(c.grammarName())
		if err != nil {
			continue
		}
		gen("parsed", sa, c.someKey(), c.admissibleInput(sa.su.Cfg, i))
	}
	// every length of the suite text 0..160 (it heads the message: a fixed-size message buffer is a thin slice here),
	// with the longest message (all fields, 64-byte password hash) and the shortest
	for n := 0; n <= 160; n++ {
		if c.quick() && n%2 == 1 && n > 70 {
			continue
		}
		raw := []byte(strings.Repeat("OCRA-1:X", 21)[:n])
		big := c.handBuilt(31, 2, 8, raw)
		big.P, big.PH = true, 3
		gen(fmt.Sprintf("rawlen/big%d", n), cfgSuiteArg(big), c.someKey(), c.admissibleInput(big, 1))
		small := c.handBuilt(2, 0, 6, raw)
		gen(fmt.Sprintf("rawlen/small%d", n), cfgSuiteArg(small), c.someKey(), c.admissibleInput(small, 0))
	}
	// every admissible length of the two padded fields (a layout slip at ONE length is a thin slice)
	for h := 0; h < 3; h++ {
		cf := c.handBuilt(31, h, 6+h, []byte("OCRA-1:LEN"))
		key := c.someKey()
		for n := minChal(cf.Chal); n <= 128; n++ {
			if c.quick() && n%4 != 0 && n < 120 && n > minChal(cf.Chal)+2 {
				continue
			}
			in := c.admissibleInput(cf, 3)
			in.Challenge = c.randBytes(n)
			gen(fmt.Sprintf("len/q%d", n), cfgSuiteArg(cf), key, in)
		}
		for n := 0; n <= 128; n++ {
			if c.quick() && n%4 != 0 && n < 120 && n > 2 {
				continue
			}
			in := c.admissibleInput(cf, 3)
			in.SessionInfo = c.randBytes(n)
			gen(fmt.Sprintf("len/s%d", n), cfgSuiteArg(cf), key, in)
		}
	}
	// hand-built: every field subset x hash x digits, arbitrary suite-string text
	for mask := 0; mask < 32; mask++ {
		for h := 0; h < 3; h++ {
			for d := 4; d <= 10; d++ {
				if c.quick() && (mask+h+d)%3 != 0 {
					continue
				}
				raws := c.rawTexts()
				cf := c.handBuilt(mask, h, d, raws[c.rng.Intn(len(raws))])
				gen(fmt.Sprintf("hand/m%d/h%d/d%d", mask, h, d), cfgSuiteArg(cf), c.someKey(), c.admissibleInput(cf, mask+d))
			}
		}
	}
	// back-to-back calls under one suite that differ in exactly one input field, and under sibling suites that differ in
	// exactly one configuration field (same suite text): whatever is remembered per suite must not carry data over
	for i := 0; i < c.n(20, 300); i++ {
		cf := c.handBuilt(31, c.rng.Intn(3), 4+c.rng.Intn(7), []byte(fmt.Sprintf("OCRA-1:SIBGEN-%d", c.rng.Intn(3))))
		base := c.admissibleInput(cf, i)
		key := c.someKey()
		secret := b32(key)
		vary := func(k int) otp.OCRAInput {
			in := base
			switch k % 6 {
			case 1:
				in.Counter = W64(uint64FromB(base.Counter) + 1)
			case 2:
				in.Challenge = c.randBytes(len(base.Challenge))
			case 3:
				in.Challenge = base.Challenge[:minChal(cf.Chal)]
			case 4:
				in.SessionInfo = c.randBytes(c.rng.Intn(129))
			case 5:
				in.Timestamp = W64(uint64FromB(base.Timestamp) + 1)
			}
			return in
		}
		for k := 0; k < 12; k++ {
			id++
			c.rec.Emit(doGenerateOCRA(fmt.Sprintf("C05/sibin/%d/%d", i, k), secret, cfgSuiteArg(cf), vary(k)))
		}
		for k := 0; k < 8; k++ {
			id++
			sib := cf
			switch k % 4 {
			case 1:
				sib.Hash = (cf.Hash + 1) % 3
			case 2:
				sib.Digits = 4 + (cf.Digits-4+3)%7
			case 3:
				sib.S = !cf.S
			}
			c.rec.Emit(doGenerateOCRA(fmt.Sprintf("C05/sibcfg/%d/%d", i, k), secret, cfgSuiteArg(sib), base))
		}
	}
	// message lengths on both sides of the pooled buffer's 256-byte capacity
	for _, rawLen := range []int{0, 20, 100, 110, 118, 119, 120, 121, 127, 128, 129, 200, 246, 247, 248, 400} {
		for _, mask := range []int{2, 1 | 2, 2 | 8, 1 | 2 | 4 | 8 | 16, 1, 16, 0} {
			cf := c.handBuilt(mask, c.rng.Intn(3), 4+c.rng.Intn(7), c.randBytes(rawLen))
			gen(fmt.Sprintf("buf/r%d/m%d", rawLen, mask), cfgSuiteArg(cf), c.someKey(), c.admissibleInput(cf, rawLen))
		}
	}
	// key classes
	for ki, key := range c.keyClasses() {
		if c.quick() && ki%3 != 0 {
			continue
		}
		sa, err := rawSuiteArg("OCRA-1:HOTP-SHA256-8:C-QN08-PSHA1")
		if err != nil {
			break
		}
		gen(fmt.Sprintf("key%d", ki), sa, key, c.admissibleInput(sa.su.Cfg, ki))
	}
}

// ---------------- C06 ----------------
func scenC06(c *ctx) {
	id := 0
	var names []string
	names = append(names, listSuites()...)
	for i := 0; i < c.n(30, 400); i++ {
		names = append(names, c.grammarName())
	}
	cases := func(tag string, sa suiteArg) {
		id++
		key := c.someKey()
		secret := c.someSpelling(key)
		in := c.admissibleInput(sa.su.Cfg, id)
		g := doGenerateOCRA(fmt.Sprintf("C06/%s/%d/gen", tag, id), secret, sa, in)
		c.rec.Emit(g)
		code := string(g.Val)
		if g.Kind != "value" {
			code = strings.Repeat("1", sa.su.Cfg.Digits%11)
		}
		for _, ed := range []string{"exact", "flip", "trunc1", "droplast", "append0", "prespace", "postnl", "arabic", "empty", "fliplast", "flipfirst"} {
			if c.quick() && ed != "exact" && ed != "flip" && c.rng.Intn(3) != 0 {
				continue
			}
			c.rec.Emit(doValidateOCRA(fmt.Sprintf("C06/%s/%d/%s", tag, id, ed), secret, c.edit(code, ed), sa, in))
		}
		// the code of a neighbouring input must not validate for this input
		nb := in
		switch {
		case sa.su.Cfg.C:
			nb.Counter = W64(uint64FromB(in.Counter) + 1)
		case sa.su.Cfg.Q:
			nb.Challenge = append([]byte{}, in.Challenge...)
			nb.Challenge[len(nb.Challenge)-1] ^= 1
		case sa.su.Cfg.T:
			nb.Timestamp = W64(uint64FromB(in.Timestamp) + 1)
		}
		c.rec.Emit(doValidateOCRA(fmt.Sprintf("C06/%s/%d/neighbour", tag, id), secret, code, sa, nb))
		// junk in unselected fields does not matter
		c.rec.Emit(doValidateOCRA(fmt.Sprintf("C06/%s/%d/junk", tag, id), secret, code, sa, c.junkUnselected(sa.su.Cfg, in)))
		// wrong secret, undecodable secret
		c.rec.Emit(doValidateOCRA(fmt.Sprintf("C06/%s/%d/othersecret", tag, id), b32(c.randBytes(20)), code, sa, in))
		c.rec.Emit(doValidateOCRA(fmt.Sprintf("C06/%s/%d/badsecret", tag, id), "A!"+secret, code, sa, in))
	}
	for _, name := range names {
		sa, err := rawSuiteArg(name)
		if err != nil {
			continue
		}
		cases("raw", sa)
	}
	for i := 0; i < c.n(60, 1000); i++ {
		raws := c.rawTexts()
		cf := c.handBuilt(c.rng.Intn(32), c.rng.Intn(3), 4+c.rng.Intn(7), raws[c.rng.Intn(len(raws))])
		cases("hand", cfgSuiteArg(cf))
	}
	c.scenC06Near()
	// sibling suites: the same secret, suite-string text, digit count and input under configurations that differ in
	// hash or in the selected fields; a code generated under one must not validate under the other (and each
	// validates under its own), in both orders, back to back
	for i := 0; i < c.n(40, 600); i++ {
		id++
		key := c.someKey()
		secret := b32(key)
		raw := []byte(fmt.Sprintf("OCRA-1:SIBLING-%d", c.rng.Intn(5)))
		d := 4 + c.rng.Intn(7)
		a := c.handBuilt(c.rng.Intn(32)|2, c.rng.Intn(3), d, raw)
		b := a
		switch i % 4 {
		case 0:
			b.Hash = (a.Hash + 1 + c.rng.Intn(2)) % 3
		case 1:
			b.C = !a.C
		case 2:
			b.S = !a.S
		default:
			b.T = !a.T
			if b.T {
				b.TS = 30
			}
		}
		in := c.admissibleInput(Cfg{C: true, Q: true, P: a.P || b.P, S: true, T: true, Chal: a.Chal, PH: maxInt(a.PH, 1)}, i)
		if a.P {
			in.Password = c.randBytes(pwLen(a.PH))
		}
		sa, sb := cfgSuiteArg(a), cfgSuiteArg(b)
		ga := doGenerateOCRA("probe", secret, sa, in)
		gb := doGenerateOCRA("probe", secret, sb, in)
		if ga.Kind != "value" || gb.Kind != "value" {
			continue
		}
		ca, cb := string(ga.Val), string(gb.Val)
		c.rec.Emit(doValidateOCRA(fmt.Sprintf("C06/sibling/%d/aa", id), secret, ca, sa, in))
		c.rec.Emit(doValidateOCRA(fmt.Sprintf("C06/sibling/%d/ab", id), secret, ca, sb, in))
		c.rec.Emit(doValidateOCRA(fmt.Sprintf("C06/sibling/%d/bb", id), secret, cb, sb, in))
		c.rec.Emit(doValidateOCRA(fmt.Sprintf("C06/sibling/%d/ba", id), secret, cb, sa, in))
		c.rec.Emit(doGenerateOCRA(fmt.Sprintf("C06/sibling/%d/gena", id), secret, sa, in))
		c.rec.Emit(doGenerateOCRA(fmt.Sprintf("C06/sibling/%d/genb", id), secret, sb, in))
	}
	// boundary shift: the same secret and suite, two inputs whose selected variable-length fields CONCATENATE to the
	// same bytes but are split at different places (challenge one byte shorter, session one byte longer, a password
	// in between shifted through); each code validates for its own input only, back to back in both orders (a memo
	// or message assembled without the fixed-width layout confuses the two)
	for i := 0; i < c.n(40, 600); i++ {
		id++
		key := c.someKey()
		secret := b32(key)
		mask := 2 | 8 | c.rng.Intn(32)
		a := c.handBuilt(mask, c.rng.Intn(3), 4+c.rng.Intn(7), []byte(fmt.Sprintf("OCRA-1:SHIFT-%d", c.rng.Intn(3))))
		inA := c.admissibleInput(a, 3)
		lo := minChal(a.Chal)
		inA.Challenge = c.randBytes(lo + 1 + c.rng.Intn(128-lo))
		inA.SessionInfo = c.randBytes(c.rng.Intn(128))
		switch i % 5 {
		case 0:
			inA.SessionInfo = nil
		case 1:
			inA.Challenge = c.randBytes(lo + 1)
		case 2:
			inA.Challenge = c.randBytes(128)
			inA.SessionInfo = c.randBytes(127)
		}
		var cat []byte
		cat = append(cat, inA.Challenge...)
		if a.P {
			cat = append(cat, inA.Password...)
		}
		cat = append(cat, inA.SessionInfo...)
		inB := inA
		q := len(inA.Challenge) - 1
		inB.Challenge = append([]byte{}, cat[:q]...)
		rest := cat[q:]
		if a.P {
			inB.Password = append([]byte{}, rest[:len(inA.Password)]...)
			rest = rest[len(inA.Password):]
		}
		inB.SessionInfo = append([]byte{}, rest...)
		sa := cfgSuiteArg(a)
		ga := doGenerateOCRA("probe", secret, sa, inA)
		gb := doGenerateOCRA("probe", secret, sa, inB)
		if ga.Kind != "value" || gb.Kind != "value" {
			continue
		}
		ca, cb := string(ga.Val), string(gb.Val)
		c.rec.Emit(doValidateOCRA(fmt.Sprintf("C06/shift/%d/aa", id), secret, ca, sa, inA))
		c.rec.Emit(doValidateOCRA(fmt.Sprintf("C06/shift/%d/ab", id), secret, ca, sa, inB))
		c.rec.Emit(doValidateOCRA(fmt.Sprintf("C06/shift/%d/bb", id), secret, cb, sa, inB))
		c.rec.Emit(doValidateOCRA(fmt.Sprintf("C06/shift/%d/ba", id), secret, cb, sa, inA))
		c.rec.Emit(doValidateOCRA(fmt.Sprintf("C06/shift/%d/aa2", id), secret, ca, sa, inA))
		c.rec.Emit(doGenerateOCRA(fmt.Sprintf("C06/shift/%d/gena", id), secret, sa, inA))
		c.rec.Emit(doGenerateOCRA(fmt.Sprintf("C06/shift/%d/genb", id), secret, sa, inB))
	}
	// generation would fail: invalid suites and inadmissible inputs never validate, whatever the code
	for i := 0; i < c.n(80, 1500); i++ {
		id++
		cf := c.handBuilt(c.rng.Intn(32), c.rng.Intn(3), 4+c.rng.Intn(7), []byte("s"))
		in := c.admissibleInput(cf, i)
		switch i % 8 {
		case 0:
			cf.Digits = []int{0, 1, 3, 11, 12, -1}[c.rng.Intn(6)]
		case 1:
			cf.Hash = 3 + c.rng.Intn(200)
		case 2:
			cf.P, cf.PH = true, 0
		case 3:
			cf.T, cf.TS = true, -c.rng.Intn(2)
		case 4:
			cf.Q, cf.Chal = true, 0
		case 5:
			cf.C = true
			in.Counter = c.randBytes([]int{0, 7, 9}[c.rng.Intn(3)])
		case 6:
			cf.Q, cf.Chal = true, 1+c.rng.Intn(6)
			in.Challenge = c.randBytes([]int{0, 7, 129, 200}[c.rng.Intn(4)])
		case 7:
			cf.S = true
			in.SessionInfo = c.randBytes(129 + c.rng.Intn(50))
		}
		sa := cfgSuiteArg(cf)
		key := c.someKey()
		for _, code := range []string{"", "0", "0000", "000000", "00000000", "0000000000", "00000000000"} {
			if len(code) != cf.Digits && c.rng.Intn(3) != 0 {
				continue
			}
			c.rec.Emit(doValidateOCRA(fmt.Sprintf("C06/fail/%d/%q", id, code), b32(key), code, sa, in))
		}
		c.rec.Emit(doGenerateOCRA(fmt.Sprintf("C06/fail/%d/gen", id), b32(key), sa, in))
	}
}

func maxInt(a, b int) int {
	if a > b {
		return a
	}
	return b
}

func uint64FromB(b []byte) uint64 {
	var v uint64
	for _, x := range b {
		v = v<<8 | uint64(x)
	}
	return v
}

// C06 continued: strings that only a sloppy comparison accepts, and inadmissible inputs submitted with the
// code of the nearest admissible input (field zero-padded or cut to its fixed width).
func (c *ctx) scenC06Near() {
	id := 0
	names := listSuites()
	pickSuite := func() suiteArg {
		if len(names) > 0 && c.rng.Intn(2) == 0 {
			if sa, err := rawSuiteArg(c.pickName(names)); err == nil {
				return sa
			}
		}
		return cfgSuiteArg(c.handBuilt(c.rng.Intn(32), c.rng.Intn(3), 4+c.rng.Intn(7), []byte("OCRA-1:HOTP-SHA1-6:QN08")))
	}
	// codes with leading zeros: same numeric value, different bytes
	for i := 0; i < c.n(25, 300); i++ {
		sa := pickSuite()
		key := c.someKey()
		for try := 0; try < 60; try++ {
			in := c.admissibleInput(sa.su.Cfg, try)
			if !sa.su.Cfg.C && !sa.su.Cfg.Q && !sa.su.Cfg.T {
				key = c.someKey()
			}
			g := doGenerateOCRA("probe", b32(key), sa, in)
			code := string(g.Val)
			if g.Kind != "value" || len(code) < 2 || code[0] != '0' {
				continue
			}
			id++
			for _, lead := range []string{"+", " ", "-", "\t", "o", "O"} {
				c.rec.Emit(doValidateOCRA(fmt.Sprintf("C06/lead/%d/%q", id, lead), b32(key), lead+code[1:], sa, in))
			}
			if code[1] == '0' {
				c.rec.Emit(doValidateOCRA(fmt.Sprintf("C06/lead/%d/two", id), b32(key), " +"+code[2:], sa, in))
			}
			c.rec.Emit(doValidateOCRA(fmt.Sprintf("C06/lead/%d/exact", id), b32(key), code, sa, in))
			break
		}
	}
	// inadmissible input + code of the nearest admissible input
	for i := 0; i < c.n(120, 2000); i++ {
		cf := c.handBuilt(c.rng.Intn(32)|[]int{1, 2, 8, 16, 4}[i%5], c.rng.Intn(3), 4+c.rng.Intn(7), []byte("OCRA-1:X"))
		sa := cfgSuiteArg(cf)
		if i%4 == 0 && len(names) > 0 {
			if s2, err := rawSuiteArg(c.pickName(names)); err == nil {
				sa, cf = s2, s2.su.Cfg
			}
		}
		key := c.someKey()
		good := c.admissibleInput(cf, i)
		bad := good
		switch {
		case i%5 == 0 && cf.C:
			if c.rng.Intn(2) == 0 { // 7 bytes: zero-padded on the right by a sloppy pad
				good.Counter = append(c.randBytes(7), 0)
				bad.Counter = good.Counter[:7]
			} else { // 9 bytes: cut to 8
				bad.Counter = append(append([]byte{}, good.Counter...), byte(c.rng.Intn(256)))
			}
		case i%5 == 1 && cf.Q:
			lo := minChal(cf.Chal)
			switch c.rng.Intn(3) {
			case 0: // too short; the admissible neighbour is the same bytes followed by zeros
				n := c.rng.Intn(lo)
				good.Challenge = append(c.randBytes(n), make([]byte, lo-n)...)
				bad.Challenge = good.Challenge[:n]
			case 1: // absent
				good.Challenge = make([]byte, lo)
				bad.Challenge = nil
			default: // too long; the neighbour is the first 128 bytes
				good.Challenge = c.randBytes(128)
				bad.Challenge = append(append([]byte{}, good.Challenge...), c.randBytes(1+c.rng.Intn(12))...)
			}
		case i%5 == 2 && cf.S:
			good.SessionInfo = c.randBytes(128)
			bad.SessionInfo = append(append([]byte{}, good.SessionInfo...), c.randBytes(1+c.rng.Intn(12))...)
		case i%5 == 3 && cf.T:
			if c.rng.Intn(2) == 0 {
				good.Timestamp = append(c.randBytes(7), 0)
				bad.Timestamp = good.Timestamp[:7]
			} else {
				bad.Timestamp = append(append([]byte{}, good.Timestamp...), 7)
			}
		case cf.P:
			n := pwLen(cf.PH)
			switch c.rng.Intn(3) {
			case 0:
				bad.Password = nil
			case 1:
				bad.Password = append(append([]byte{}, good.Password...), 0)
			default:
				bad.Password = good.Password[:n-1]
			}
		default:
			continue
		}
		g := doGenerateOCRA("probe", b32(key), sa, good)
		if g.Kind != "value" {
			continue
		}
		id++
		c.rec.Emit(doValidateOCRA(fmt.Sprintf("C06/near/%d/bad", id), b32(key), string(g.Val), sa, bad))
		c.rec.Emit(doGenerateOCRA(fmt.Sprintf("C06/near/%d/genbad", id), b32(key), sa, bad))
		c.rec.Emit(doValidateOCRA(fmt.Sprintf("C06/near/%d/good", id), b32(key), string(g.Val), sa, good))
	}
}

// ---------------- C14 ----------------
func scenC14(c *ctx) {
	c.scenC14Siblings()
	// suite usability: subsets x formats x password hashes x digits x hashes x time steps
	n := 0
	for mask := 0; mask < 32; mask++ {
		for ch := 0; ch <= 6; ch++ {
			for ph := 0; ph <= 3; ph++ {
				for d := -1; d <= 12; d++ {
					for h := 0; h <= 4; h++ {
						for _, ts := range []int{-1, 0, 1, 60} {
							n++
							if c.quick() && c.rng.Intn(40) != 0 {
								continue
							}
							// thorough: the complete grid (250 880 configurations)
							cf := subsetCfg(mask)
							cf.Chal, cf.PH, cf.Digits, cf.Hash, cf.TS, cf.Raw = ch, ph, d, h, ts, S("s")
							c.rec.Emit(doSuiteValidate(fmt.Sprintf("C14/suite/m%d/ch%d/ph%d/d%d/h%d/ts%d", mask, ch, ph, d, h, ts), cf, n%3))
						}
					}
				}
			}
		}
	}
	// admission: for sampled (subset, format, password hash) classes, each field alone at every length 0..140
	fields := []string{"counter", "challenge", "password", "session", "timestamp"}
	classes := 0
	for mask := 0; mask < 32; mask++ {
		for ch := 1; ch <= 6; ch++ {
			for ph := 1; ph <= 3; ph++ {
				classes++
				if c.quick() && c.rng.Intn(18) != 0 {
					continue
				}
				// thorough: every (subset, format, password hash) class, every field, every length 0..140
				cf := subsetCfg(mask)
				cf.Chal, cf.PH, cf.Digits, cf.Hash, cf.Raw = ch, ph, 6, c.rng.Intn(3), S("s")
				if cf.T {
					cf.TS = 30
				}
				base := c.admissibleInput(cf, classes)
				for fi, f := range fields {
					for ln := 0; ln <= 140; ln++ {
						in := base
						var b []byte
						if ln > 0 || c.rng.Intn(2) == 0 {
							b = c.randBytes(ln)
						}
						switch fi {
						case 0:
							in.Counter = b
						case 1:
							in.Challenge = b
						case 2:
							in.Password = b
						case 3:
							in.SessionInfo = b
						case 4:
							in.Timestamp = b
						}
						scn := fmt.Sprintf("C14/adm/m%d/ch%d/ph%d/%s/%d", mask, ch, ph, f, ln)
						c.rec.Emit(doInputValidate(scn, cf, in))
						// through the real entry points at and around every boundary
						if isBoundary(ln) {
							sa := cfgSuiteArg(cf)
							key := c.randBytes(20)
							c.rec.Emit(doGenerateOCRA(scn+"/gen", b32(key), sa, in))
							c.rec.Emit(doValidateOCRA(scn+"/val", b32(key), "000000", sa, in))
						}
					}
				}
				// pairs of fields on boundary lengths
				for k := 0; k < 12; k++ {
					in := base
					in.Challenge = c.randBytes(boundaries[c.rng.Intn(len(boundaries))])
					in.SessionInfo = c.randBytes(boundaries[c.rng.Intn(len(boundaries))])
					in.Password = c.randBytes(boundaries[c.rng.Intn(len(boundaries))])
					if k%2 == 0 {
						in.Counter = c.randBytes([]int{7, 8, 9}[c.rng.Intn(3)])
					}
					if k%3 == 0 {
						in.Timestamp = c.randBytes([]int{7, 8, 9}[c.rng.Intn(3)])
					}
					c.rec.Emit(doInputValidate(fmt.Sprintf("C14/pair/m%d/ch%d/ph%d/%d", mask, ch, ph, k), cf, in))
				}
			}
		}
	}
}

var boundaries = []int{0, 1, 7, 8, 9, 10, 11, 19, 20, 21, 31, 32, 33, 63, 64, 65, 127, 128, 129, 140}

func isBoundary(n int) bool {
	for _, b := range boundaries {
		if b == n {
			return true
		}
	}
	return false
}

// sibling configurations through the real entry points: identical except for ONE requirement-bearing field
// (challenge format, password hash, a selection flag), used back to back in both orders at the boundary lengths
func (c *ctx) scenC14Siblings() {
	id := 0
	for i := 0; i < c.n(30, 400); i++ {
		a := c.handBuilt(c.rng.Intn(32)|2, c.rng.Intn(3), 4+c.rng.Intn(7), []byte("OCRA-1:SIB"))
		b := a
		var lens []int
		field := 1
		switch i % 3 {
		case 0: // minimum challenge length 8 versus 10
			a.Chal, b.Chal = []int{1, 3, 5}[c.rng.Intn(3)], []int{2, 4, 6}[c.rng.Intn(3)]
			lens = []int{7, 8, 9, 10, 11}
		case 1: // password hash length
			a.P, b.P = true, true
			a.PH, b.PH = 1, 2+c.rng.Intn(2)
			lens = []int{19, 20, 21, 31, 32, 33, 63, 64, 65}
			field = 2
		default: // session selected or not
			a.S, b.S = true, false
			lens = []int{127, 128, 129, 140}
			field = 3
		}
		if i%2 == 1 {
			a, b = b, a
		}
		key := c.randBytes(20)
		for _, ln := range lens {
			for _, cf := range []Cfg{a, b, a} {
				id++
				in := c.admissibleInput(cf, id)
				switch field {
				case 1:
					in.Challenge = c.randBytes(ln)
				case 2:
					in.Password = c.randBytes(ln)
				default:
					in.SessionInfo = c.randBytes(ln)
				}
				sa := cfgSuiteArg(cf)
				c.rec.Emit(doGenerateOCRA(fmt.Sprintf("C14/sib/%d/gen", id), b32(key), sa, in))
				c.rec.Emit(doValidateOCRA(fmt.Sprintf("C14/sib/%d/val", id), b32(key), strings.Repeat("0", cf.Digits), sa, in))
				c.rec.Emit(doInputValidate(fmt.Sprintf("C14/sib/%d/inp", id), cf, in))
			}
		}
	}
}

// ---------------- C15 ----------------
func scenC15(c *ctx) {
	seen := map[string]bool{}
	emit := func(tag, name string, inlist bool) {
		if seen[name] {
			return
		}
		seen[name] = true
		c.rec.Emit(doNewRawSuite("C15/"+tag+"/"+fmt.Sprintf("%q", name), name, inlist))
	}
	// (first, while whatever the library remembers between calls is still empty or small: a bounded memo that has
	// filled up no longer shows the effect)
	// spellings that a normalising parser might identify with one another (letter case, surrounding blanks, a
	// leading zero), back to back with the plain string in both orders and not de-duplicated: whatever a variant
	// left behind (a memo keyed by the normalised text, say) must not change what the next string reports
	mixed := func(n string) string {
		b := []byte(strings.ToLower(n))
		up := true
		for i := range b {
			if up && b[i] >= 'a' && b[i] <= 'z' {
				b[i] -= 32
			}
			up = b[i] == '-' || b[i] == ':'
		}
		return string(b)
	}
	advertised := map[string]bool{}
	for _, n := range listSuites() {
		advertised[n] = true
	}
	raw := func(tag, name string) {
		c.rec.Emit(doNewRawSuite("C15/"+tag+"/"+fmt.Sprintf("%q", name), name, advertised[name]))
	}
	for i := 0; i < c.n(12, 150); i++ {
		name := c.grammarName()
		vars := []string{strings.ToLower(name), mixed(name), name + " ", " " + name, strings.Replace(name, "-Q", "-q", 1), strings.Replace(name, "HOTP", "hotp", 1)}
		v := vars[i%len(vars)]
		tag := fmt.Sprintf("norm/%d", i)
		if i%2 == 0 {
			raw(tag+"/a", v)
			raw(tag+"/b", name)
			raw(tag+"/c", v)
		} else {
			raw(tag+"/a", name)
			raw(tag+"/b", v)
			raw(tag+"/c", name)
		}
		// and what is derived with the suite taken after the variant
		if sa, err := rawSuiteArg(name); err == nil {
			key := c.someKey()
			c.rec.Emit(doGenerateOCRA(fmt.Sprintf("C15/%s/gen", tag), b32(key), sa, c.admissibleInput(sa.su.Cfg, i)))
		}
	}
	for _, name := range listSuites() {
		emit("adv", name, true)
	}
	// grammar enumeration
	hashes := []string{"SHA1", "SHA256", "SHA512"}
	qs := []string{"QN08", "QN10", "QA08", "QA10", "QH08", "QH10"}
	ps := []string{"", "PSHA1", "PSHA256", "PSHA512"}
	ss := []string{"", "S", "S064", "S128", "S256", "S512"}
	var ts []string
	ts = append(ts, "")
	for n := 1; n <= 59; n++ {
		ts = append(ts, fmt.Sprintf("T%dS", n), fmt.Sprintf("T%dM", n))
	}
	for n := 0; n <= 48; n++ {
		ts = append(ts, fmt.Sprintf("T%dH", n))
	}
	total := 0
	for _, h := range hashes {
		for d := 0; d <= 11; d++ {
			for cc := 0; cc < 2; cc++ {
				for _, q := range qs {
					for _, p := range ps {
						for _, s := range ss {
							for _, t := range ts {
								total++
								keep := c.rng.Intn(c.n(300, 12)) == 0
								if !keep {
									continue
								}
								toks := []string{}
								if cc == 1 {
									toks = append(toks, "C")
								}
								toks = append(toks, q)
								for _, x := range []string{p, s, t} {
									if x != "" {
										toks = append(toks, x)
									}
								}
								emit("gram", fmt.Sprintf("OCRA-1:HOTP-%s-%d:%s", h, d, strings.Join(toks, "-")), false)
							}
						}
					}
				}
			}
		}
	}
	// sibling crypto functions: the same data-input part under every hash x digit count, back to back (a parser
	// that remembers anything about one string must not let it influence the reading of the next)
	for i := 0; i < c.n(25, 400); i++ {
		name := c.grammarName()
		data := name[strings.LastIndex(name, ":")+1:]
		for _, h := range hashes {
			for _, d := range []int{6, 8, 4, 10, 0, 3, 11, 7} {
				emit("sibling", fmt.Sprintf("OCRA-1:HOTP-%s-%d:%s", h, d, data), false)
			}
		}
	}
	// all time tokens once with a parsed-friendly prefix (minutes / hours factors)
	for _, t := range ts[1:] {
		emit("time", "OCRA-1:HOTP-SHA1-6:QN08-"+t, false)
	}
	// malformed: missing parts, unknown tokens, wrong version, unknown crypto, digits out of range, time value 0
	for _, s := range []string{"", "OCRA-1", "OCRA-1:", "OCRA-1:HOTP-SHA1-6", "OCRA-1:HOTP-SHA1-6:", ":HOTP-SHA1-6:QN08", "HOTP-SHA1-6:QN08",
		"OCRA-2:HOTP-SHA1-6:QN08", "OCRA-10:HOTP-SHA1-6:QN08", "OCRA-1x:HOTP-SHA1-6:QN08", "OCRA-11:HOTP-SHA256-8:C-QN08", "OCRA:HOTP-SHA1-6:QN08", "OCRA-1.1:HOTP-SHA1-6:QN08", "XOCRA-1:HOTP-SHA1-6:QN08",
		"OCRA-1:TOTP-SHA1-6:QN08", "OCRA-1:HOTP-MD5-6:QN08", "OCRA-1:HOTP-SHA384-6:QN08", "OCRA-1:HOTP-SHA1:QN08", "OCRA-1:HOTP-SHA1-x:QN08", "OCRA-1:HOTP-SHA1-6-7:QN08", "OCRA-1:HOTP-6:QN08", "OCRA-1:SHA1-6:QN08",
		"OCRA-1:HOTP-SHA1-0:QN08", "OCRA-1:HOTP-SHA1-3:QN08", "OCRA-1:HOTP-SHA1-11:QN08", "OCRA-1:HOTP-SHA1-12:C-QN08", "OCRA-1:HOTP-SHA1-99:QN08",
		"OCRA-1:HOTP-SHA1-6:X", "OCRA-1:HOTP-SHA1-6:QN08-X", "OCRA-1:HOTP-SHA1-6:QN08-PMD5", "OCRA-1:HOTP-SHA1-6:QN08-PSHA384", "OCRA-1:HOTP-SHA1-6:QN08-", "OCRA-1:HOTP-SHA1-6:-QN08", "OCRA-1:HOTP-SHA1-6:C--QN08",
		"OCRA-1:HOTP-SHA1-6:D-QN08", "OCRA-1:HOTP-SHA1-6:QN08-Z1M", "OCRA-1:HOTP-SHA1-6:QN08-PSHA1-U", "OCRA-1:HOTP-SHA1-6:QN08-T0S", "OCRA-1:HOTP-SHA1-6:QN08-T0M", "OCRA-1:HOTP-SHA1-6:C-QN08-T0H",
		"OCRA-1:HOTP-SHA1-6:QN08 ", " OCRA-1:HOTP-SHA1-6:QN08", "OCRA-1:HOTP-SHA1-6:QN08\n", "OCRA-1;HOTP-SHA1-6;QN08"} {
		emit("malformed", s, false)
	}
	// unclassified by the property (recorded to show that they are not judged): case, order, repeats, extra parts
	for _, s := range []string{"ocra-1:hotp-sha1-6:qn08", "OCRA-1:hotp-sha1-6:QN08", "OCRA-1:HOTP-SHA1-6:QN08-C", "OCRA-1:HOTP-SHA1-6:QN08-QN10", "OCRA-1:HOTP-SHA1-6:QN08:x",
		"OCRA-1:HOTP-SHA1-06:QN08", "OCRA-1:HOTP-SHA1-6:QN09", "OCRA-1:HOTP-SHA1-6:QN08-T1X", "OCRA-1:HOTP-SHA1-6:QN08-T100S", "OCRA-1:HOTP-SHA1-6:QN08-S1"} {
		emit("other", s, false)
	}
	// one token damaged in every simple way (class malformed / other / sometimes well-formed: judged accordingly)
	for _, name := range c.suiteTokenEdits() {
		emit("toked", name, false)
	}
	// random garbage never in the registry: list and lookup agree
	for i := 0; i < c.n(50, 1000); i++ {
		emit("rnd", string(c.randBytes(c.rng.Intn(30))), false)
	}
	// mutations of advertised names (one character changed)
	for _, name := range listSuites() {
		b := []byte(name)
		if len(b) == 0 {
			continue
		}
		k := c.rng.Intn(len(b))
		b[k] = "0123456789ACHNPQST-:"[c.rng.Intn(20)]
		emit("mutadv", string(b), false)
	}
}

// ---------------- hooks into C07 / C13 ----------------
func (c *ctx) ocraSpellingGroups(i int, key []byte, sp []string, group func(mk func(s string, k int) Event)) {
	names := listSuites()
	if len(names) == 0 {
		return
	}
	sa, err := rawSuiteArg(c.pickName(names))
	if err != nil {
		return
	}
	in := c.admissibleInput(sa.su.Cfg, i)
	g := doGenerateOCRA("probe", b32(key), sa, in)
	group(func(s string, k int) Event {
		return doGenerateOCRA(fmt.Sprintf("C07/ep/genocra/%d/%d", i, k), s, sa, in)
	})
	group(func(s string, k int) Event {
		return doValidateOCRA(fmt.Sprintf("C07/ep/valocra/%d/%d", i, k), s, string(g.Val), sa, in)
	})
}

func (c *ctx) ocraC13(i int, key []byte, secret string) {
	names := listSuites()
	if len(names) == 0 {
		return
	}
	sa, err := rawSuiteArg(c.pickName(names))
	if err != nil {
		return
	}
	in := c.admissibleInput(sa.su.Cfg, i)
	g := doGenerateOCRA("probe", secret, sa, in)
	code := string(g.Val)
	for _, ed := range []string{"exact", "flip", "trunc1", "droplast", "append0", "empty"} {
		c.rec.Emit(doValidateOCRA(fmt.Sprintf("C13/ocra/%d/%s", i, ed), secret, c.edit(code, ed), sa, in))
	}
	// inadmissible input, invalid suite, damaged secret
	bad := in
	bad.Challenge = c.randBytes(129)
	bad.Counter = c.randBytes(7)
	c.rec.Emit(doValidateOCRA(fmt.Sprintf("C13/ocra/%d/badinput", i), secret, code, sa, bad))
	c.rec.Emit(doGenerateOCRA(fmt.Sprintf("C13/ocra/%d/genbadinput", i), secret, sa, bad))
	cf := sa.su.Cfg
	cf.Digits = 11
	c.rec.Emit(doValidateOCRA(fmt.Sprintf("C13/ocra/%d/badsuite", i), secret, code+"0", cfgSuiteArg(cf), in))
	// every way generation can fail, each with a submitted string of exactly the length the suite asks for
	for _, d := range []int{0, 1, 3, 11, 12, -1} {
		cf.Digits = d
		n := d
		if n < 0 {
			n = 0
		}
		c.rec.Emit(doValidateOCRA(fmt.Sprintf("C13/ocra/%d/baddigits%d", i, d), secret, strings.Repeat("0", n), cfgSuiteArg(cf), in))
	}
	c.rec.Emit(doValidateOCRA(fmt.Sprintf("C13/ocra/%d/zerosuite", i), secret, "", cfgSuiteArg(Cfg{Raw: B{}}), in))
	c.rec.Emit(doValidateOCRA(fmt.Sprintf("C13/ocra/%d/zerorawsuite", i), secret, "", suiteArg{s: otp.RawSuite{}, su: Su{Kind: "cfg", Name: B{}, Cfg: Cfg{Raw: B{}}}}, in))
	cf = sa.su.Cfg
	cf.Hash = 3 + c.rng.Intn(200)
	c.rec.Emit(doValidateOCRA(fmt.Sprintf("C13/ocra/%d/badhash", i), secret, code, cfgSuiteArg(cf), in))
	cf = sa.su.Cfg
	cf.P, cf.PH = true, 0
	c.rec.Emit(doValidateOCRA(fmt.Sprintf("C13/ocra/%d/nopwhash", i), secret, code, cfgSuiteArg(cf), in))
	cf = sa.su.Cfg
	cf.T, cf.TS = true, 0
	c.rec.Emit(doValidateOCRA(fmt.Sprintf("C13/ocra/%d/notimestep", i), secret, code, cfgSuiteArg(cf), in))
	c.rec.Emit(doValidateOCRA(fmt.Sprintf("C13/ocra/%d/badsecret", i), "!"+secret, code, sa, in))
	if len(secret) > 8 {
		na := secret[:4] + []string{"\u200b", "\u017f", "\xff", "\xc3\xa9"}[i%4] + secret[4:]
		c.rec.Emit(doValidateOCRA(fmt.Sprintf("C13/ocra/%d/badsecretna", i), na, code, sa, in))
		c.rec.Emit(doGenerateOCRA(fmt.Sprintf("C13/ocra/%d/genbadsecretna", i), na, sa, in))
	}
}
