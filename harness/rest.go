package main

import (
	"bytes"
	"context"
	"encoding/json"
	"flag"
	"fmt"
	"io"
	"math/rand"
	"net"
	"net/http"
	"net/url"
	"os"
	"os/exec"
	"path/filepath"
	"sort"
	"strconv"
	"strings"
	"sync"
	"time"

	"github.com/ja7ad/otp"
)

// Black-box driver of the real REST server binary (properties C18, C19). The request->library mapping
// is NOT here: it is the TLA+ specification Rest/RestTrace; this file only sends requests and records
// what came back.

// RF is one request or response field in every representation the specification may need.
type RF struct {
	P   bool `json:"p"`   // present
	S   B    `json:"s"`   // string value
	W   B    `json:"w"`   // number magnitude as 8-byte word
	Neg bool `json:"neg"` // number sign
	I   int  `json:"i"`   // small integer view (clamped)
	Bo  bool `json:"b"`   // boolean value

	full string // when non-empty: the string really sent (S is then its equivalent short form, see rfStrLong)
}

func rfAbsent() RF      { return RF{S: B{}, W: W64(0)} }
func rfStr(s string) RF { return RF{P: true, S: S(s), W: W64(0)} }

// rfStrLong sends a very long run of one character but logs only its first 2001 bytes; callers choose
// lengths congruent to 2001 modulo 8 so that the logged form falls into the same classes of the
// specification (undecodable length, not blank, longer than any code) as the string really sent.
func rfStrLong(s string) RF {
	if len(s) <= 2001 {
		return rfStr(s)
	}
	if (len(s)-2001)%8 != 0 {
		panic("rfStrLong: length class not preserved")
	}
	return RF{P: true, S: S(s[:2001]), W: W64(0), full: s}
}
func rfNum(v uint64) RF { return RF{P: true, S: B{}, W: W64(v), I: clamp32(int(v & 0x3fffffff))} }
func rfInt(v int64) RF {
	if v < 0 {
		return RF{P: true, S: B{}, W: W64(uint64(-v)), Neg: true, I: clamp32(int(v))}
	}
	return RF{P: true, S: B{}, W: W64(uint64(v)), I: clamp32(int(v))}
}
func rfBool(b bool) RF { return RF{P: true, S: B{}, W: W64(0), Bo: b} }

type RSuite struct {
	P    bool `json:"p"`
	Hash B    `json:"hash"`
	Cfg  Cfg  `json:"cfg"` // digits, chal, c q p s t, ph, ts as sent (hash field unused)
}

type RReq struct {
	Secret, Code, Timestamp, Counter, Digits, Period, Skew, Algorithm, RawSuite RF
	Type, Issuer, Account, QAlg                                                 RF
	Suite                                                                       RSuite
	InputP                                                                      bool
	Hex                                                                         [5]RF // counter, challenge, password, session, timestamp
}

type restEvent struct {
	ID        int            `json:"id"`
	Scn       string         `json:"scn"`
	Conn      int            `json:"conn"`
	Path      string         `json:"path"`
	Method    string         `json:"method"`
	Cls       string         `json:"cls"` // typed | badjson | wrongtype | other syntactic classes (harness' claim, body text kept in r)
	Probe     bool           `json:"probe"`
	Req       map[string]any `json:"req"`
	Resp      map[string]any `json:"resp"`
	T0        B              `json:"t0"`
	T1        B              `json:"t1"`
	Step0     B              `json:"step0"`
	Step1     B              `json:"step1"`
	SuCfg     Cfg            `json:"sucfg"`
	Orc       []Mac          `json:"orc"`
	LibSuites []B            `json:"libsuites"`
	R         any            `json:"r,omitempty"`
}

func (q RReq) asMap() map[string]any {
	return map[string]any{"secret": q.Secret, "code": q.Code, "timestamp": q.Timestamp, "counter": q.Counter, "digits": q.Digits, "period": q.Period,
		"skew": q.Skew, "algorithm": q.Algorithm, "raw_suite": q.RawSuite, "type": q.Type, "issuer": q.Issuer, "account": q.Account, "qalg": q.QAlg,
		"suite": q.Suite, "inputp": q.InputP, "hex": q.Hex[:]}
}

func newRReq() RReq {
	a := rfAbsent()
	return RReq{Secret: a, Code: a, Timestamp: a, Counter: a, Digits: a, Period: a, Skew: a, Algorithm: a, RawSuite: a, Type: a, Issuer: a, Account: a, QAlg: a,
		Suite: RSuite{Hash: B{}, Cfg: Cfg{Raw: B{}}}, Hex: [5]RF{a, a, a, a, a}}
}

// body renders the typed request as JSON (numbers as exact literals).
func (q RReq) body() []byte {
	var parts []string
	str := func(name string, f RF) {
		if f.P {
			val := string(f.S)
			if f.full != "" {
				val = f.full
			}
			v, _ := json.Marshal(val)
			parts = append(parts, fmt.Sprintf("%q:%s", name, v))
		}
	}
	num := func(name string, f RF) {
		if f.P {
			sign := ""
			if f.Neg {
				sign = "-"
			}
			parts = append(parts, fmt.Sprintf("%q:%s%d", name, sign, uint64FromB(f.W)))
		}
	}
	str("secret", q.Secret)
	str("code", q.Code)
	num("timestamp", q.Timestamp)
	num("counter", q.Counter)
	str("digits", q.Digits)
	num("period", q.Period)
	num("skew", q.Skew)
	str("algorithm", q.Algorithm)
	str("raw_suite", q.RawSuite)
	str("type", q.Type)
	str("issuer", q.Issuer)
	str("account_name", q.Account)
	if q.Suite.P {
		c := q.Suite.Cfg
		h, _ := json.Marshal(string(q.Suite.Hash))
		parts = append(parts, fmt.Sprintf(`"suite":{"hash_function":%s,"code_digits":%d,"challenge_format":%d,"include_counter":%v,"include_challenge":%v,"include_password":%v,"include_session":%v,"include_timestamp":%v,"password_hash":%d,"timestep":%d}`,
			h, c.Digits, c.Chal, c.C, c.Q, c.P, c.S, c.T, c.PH, c.TS))
	}
	if q.InputP {
		var in []string
		for i, n := range []string{"counter_hex", "challenge_hex", "password_hex", "session_info_hex", "timestamp_hex"} {
			if q.Hex[i].P {
				v, _ := json.Marshal(string(q.Hex[i].S))
				in = append(in, fmt.Sprintf("%q:%s", n, v))
			}
		}
		parts = append(parts, `"input":{`+strings.Join(in, ",")+`}`)
	}
	return []byte("{" + strings.Join(parts, ",") + "}")
}

type restDriver struct {
	base     string
	cmd      *exec.Cmd
	mu       sync.Mutex
	events   []restEvent
	deadline time.Duration
	long     map[string]bool // reproduction: the exchanges under examination get the long deadline, the others 3 s
	rng      *rand.Rand
	suites   []string
}

func freePort() int {
	l, err := net.Listen("tcp", "127.0.0.1:0")
	if err != nil {
		panic(err)
	}
	defer l.Close()
	return l.Addr().(*net.TCPAddr).Port
}

func startServer(bin string) (*restDriver, error) {
	port := freePort()
	addr := fmt.Sprintf("127.0.0.1:%d", port)
	cmd := exec.Command(bin, "-serve", addr)
	childDiesWithUs(cmd)
	cmd.Stdout, cmd.Stderr = io.Discard, io.Discard
	if err := cmd.Start(); err != nil {
		return nil, err
	}
	d := &restDriver{base: "http://" + addr, cmd: cmd, deadline: 3 * time.Second}
	for i := 0; i < 100; i++ {
		c, err := net.DialTimeout("tcp", addr, 200*time.Millisecond)
		if err == nil {
			c.Close()
			return d, nil
		}
		time.Sleep(50 * time.Millisecond)
	}
	cmd.Process.Kill()
	return nil, fmt.Errorf("server did not start listening on %s", addr)
}

func (d *restDriver) stop() {
	if d.cmd != nil && d.cmd.Process != nil {
		d.cmd.Process.Kill()
		d.cmd.Wait()
	}
}

func (d *restDriver) alive() bool {
	c, err := net.DialTimeout("tcp", strings.TrimPrefix(d.base, "http://"), 500*time.Millisecond)
	if err != nil {
		return false
	}
	c.Close()
	return d.cmd.ProcessState == nil
}

type client struct {
	id int
	hc *http.Client
}

func newClient(id int, keepAlive bool, deadline time.Duration) *client {
	tr := &http.Transport{DisableKeepAlives: !keepAlive, MaxIdleConnsPerHost: 1, MaxConnsPerHost: 1}
	return &client{id: id, hc: &http.Client{Transport: tr, Timeout: deadline, CheckRedirect: func(*http.Request, []*http.Request) error { return http.ErrUseLastResponse }}}
}

// send issues one request and records the exchange.
func (d *restDriver) send(c *client, scn, method, path, query, cls string, probe bool, q RReq, rawBody []byte) restEvent {
	ev := restEvent{Scn: scn, Conn: c.id, Path: path, Method: method, Cls: cls, Probe: probe, Req: q.asMap(), Orc: []Mac{}, LibSuites: []B{},
		Step0: W64(0), Step1: W64(0), SuCfg: Cfg{Raw: B{}}, T0: W64(0), T1: W64(0)}
	body := rawBody
	if body == nil && method == "POST" {
		body = q.body()
	}
	u := d.base + path
	if query != "" {
		u += "?" + query
	}
	resp := map[string]any{"got": false, "status": 0, "ms": 0, "json": false, "code": rfAbsent(), "valid": rfAbsent(), "counter": rfAbsent(), "timestamp": rfAbsent(),
		"suite": rfAbsent(), "secret": rfAbsent(), "algorithm": rfAbsent(), "url": rfAbsent(), "raw": rfAbsent(), "suitesp": false, "suites": []B{},
		"configp": false, "config": Cfg{Raw: B{}}, "confighash": B{}, "up": map[string]any{"ok": false, "issuer": B{}, "account": B{}, "secret": B{}, "digits": 0, "alg": 0, "period": W64(0), "host": B{}}}
	req, err := http.NewRequest(method, u, bytes.NewReader(body))
	if err != nil {
		ev.Resp = resp
		ev.R = map[string]any{"error": err.Error()}
		return ev
	}
	if method == "POST" {
		req.Header.Set("Content-Type", "application/json")
	}
	if d.long != nil && !d.long[scn] {
		cx, cancel := context.WithTimeout(context.Background(), 3*time.Second)
		defer cancel()
		req = req.WithContext(cx)
	}
	t0 := time.Now()
	ev.T0 = W64(uint64(t0.Unix()))
	r, err := c.hc.Do(req)
	var data []byte
	if err == nil {
		data, err = io.ReadAll(io.LimitReader(r.Body, 8<<20))
		r.Body.Close()
	}
	t1 := time.Now()
	ev.T1 = W64(uint64(t1.Unix()))
	resp["ms"] = int(t1.Sub(t0) / time.Millisecond)
	if len(body) < 4000 {
		ev.R = map[string]any{"body": string(body)}
	}
	if err != nil {
		ev.Resp = resp
		ev.R = map[string]any{"error": err.Error(), "body": clip(string(body), 300)}
		return ev
	}
	resp["got"] = true
	resp["status"] = r.StatusCode
	var obj map[string]any
	dec := json.NewDecoder(bytes.NewReader(data))
	dec.UseNumber()
	if dec.Decode(&obj) == nil && obj != nil {
		resp["json"] = true
		getS := func(k string) RF {
			if v, ok := obj[k].(string); ok {
				return rfStr(v)
			}
			return rfAbsent()
		}
		getN := func(k string) RF {
			if v, ok := obj[k].(json.Number); ok {
				if u, err := strconv.ParseUint(v.String(), 10, 64); err == nil {
					return rfNum(u)
				}
				if i, err := strconv.ParseInt(v.String(), 10, 64); err == nil {
					return rfInt(i)
				}
			}
			return rfAbsent()
		}
		resp["code"], resp["suite"], resp["secret"], resp["algorithm"], resp["url"], resp["raw"] = getS("code"), getS("suite"), getS("secret"), getS("algorithm"), getS("url"), getS("raw")
		resp["counter"], resp["timestamp"] = getN("counter"), getN("timestamp")
		if v, ok := obj["valid"].(bool); ok {
			resp["valid"] = rfBool(v)
		}
		if l, ok := obj["suites"].([]any); ok {
			resp["suitesp"] = true
			var names []string
			for _, x := range l {
				if s, ok := x.(string); ok {
					names = append(names, s)
				}
			}
			sort.Strings(names)
			bs := []B{}
			for _, n := range names {
				bs = append(bs, S(n))
			}
			resp["suites"] = bs
		}
		if c, ok := obj["config"].(map[string]any); ok {
			resp["configp"] = true
			gi := func(k string) int {
				if v, ok := c[k].(json.Number); ok {
					i, _ := v.Int64()
					return clamp32(int(i))
				}
				return 0
			}
			gb := func(k string) bool { b, _ := c[k].(bool); return b }
			hf, _ := c["hash_function"].(string)
			resp["confighash"] = S(hf)
			resp["config"] = Cfg{Raw: B{}, Digits: gi("code_digits"), Chal: gi("challenge_format"), C: gb("include_counter"), Q: gb("include_challenge"),
				P: gb("include_password"), S: gb("include_session"), T: gb("include_timestamp"), PH: gi("password_hash"), TS: gi("timestep")}
		}
		// a returned provisioning URL is parsed back with net/url and the library of the same tree
		if us, ok := obj["url"].(string); ok {
			up := map[string]any{"ok": false, "issuer": B{}, "account": B{}, "secret": B{}, "digits": 0, "alg": 0, "period": W64(0), "host": B{}}
			if pu, err := url.Parse(us); err == nil {
				up["host"] = S(pu.Host)
				if p, err := otp.ParseOTPAuthURL(pu); err == nil && p != nil {
					up["ok"] = true
					up["issuer"], up["account"], up["secret"] = S(p.Issuer), S(p.AccountName), S(p.Secret)
					up["digits"], up["alg"], up["period"] = int(p.Digits), int(p.Algorithm), W64(uint64(p.Period))
				}
			}
			resp["up"] = up
		}
	}
	ev.Resp = resp
	return ev
}

func (d *restDriver) record(ev restEvent) {
	d.mu.Lock()
	ev.ID = len(d.events) + 1
	d.events = append(d.events, ev)
	d.mu.Unlock()
}

func cmdRest(args []string) {
	fs := flag.NewFlagSet("rest", flag.ExitOnError)
	prop := fs.String("prop", "C18", "C18 | C19")
	tier := fs.String("tier", "quick", "quick|thorough")
	seed := fs.Int64("seed", 1, "seed")
	out := fs.String("out", "", "output directory")
	server := fs.String("server", "", "server binary")
	only := fs.String("only", "", "only these scenario keys (\\x1f separated)")
	per := fs.Int("per-shard", 400, "events per trace file")
	deadline := fs.Duration("deadline", 3*time.Second, "deadline per exchange")
	fs.Parse(args)
	d, err := startServer(*server)
	if err != nil {
		fmt.Fprintln(os.Stderr, "cannot start server:", err)
		os.Exit(3)
	}
	d.deadline = *deadline
	if *only != "" && *deadline > 3*time.Second {
		d.long = map[string]bool{}
		for _, k := range strings.Split(*only, "\x1f") {
			d.long[k] = true
		}
	}
	defer d.stop()
	d.rng = rand.New(rand.NewSource(*seed))
	d.suites = listSuites()
	c := &ctx{rng: d.rng, tier: *tier, seed: *seed, rec: NewRecorder(*out, "unused", 1<<30)}
	if *prop == "C18" {
		restScenC18(d, c)
	} else {
		restScenC19(d, c)
	}
	aliveAtEnd := d.alive()
	d.stop()
	onlySet := map[string]bool{}
	if *only != "" {
		for _, k := range strings.Split(*only, "\x1f") {
			onlySet[k] = true
		}
	}
	var files []string
	var w *os.File
	n := 0
	var samples []restEvent
	for _, ev := range d.events {
		if len(onlySet) > 0 && !onlySet[ev.Scn] {
			continue
		}
		if w == nil || n%*per == 0 {
			if w != nil {
				w.Close()
			}
			name := filepath.Join(*out, fmt.Sprintf("rest.%03d.ndjson", len(files)))
			w, _ = os.Create(name)
			files = append(files, name)
		}
		n++
		ev.ID = n
		data, err := json.Marshal(ev)
		if err != nil {
			panic(err)
		}
		w.Write(data)
		w.Write([]byte("\n"))
		if len(samples) < 4 && (n%37 == 1) {
			samples = append(samples, ev)
		}
	}
	if w != nil {
		w.Close()
	}
	sum := map[string]any{"events": n, "files": files, "alive_at_end": aliveAtEnd, "samples": samples}
	data, _ := json.MarshalIndent(sum, "", " ")
	os.WriteFile(filepath.Join(*out, "gen.json"), data, 0o644)
	fmt.Printf("rest: %d exchanges recorded, server alive at end: %v\n", n, aliveAtEnd)
}

func init() { extraCmds["rest"] = cmdRest }
