//go:build verif && verif_internal

package main

func hookModeFull() string { return "verif,verif_internal" }
