package main

import (
	"fmt"
	"math"
	"math/big"
	"net/url"
	"runtime"
	"strings"
	"sync"
	"time"

	"github.com/ja7ad/otp"
)

// ---------------- C17 ----------------
func (c *ctx) decString(n int) string {
	b := make([]byte, n)
	for i := range b {
		b[i] = '0' + byte(c.rng.Intn(10))
	}
	if n > 0 && c.rng.Intn(3) != 0 && b[0] == '0' {
		b[0] = '1' + byte(c.rng.Intn(9))
	}
	return string(b)
}

func (c *ctx) hexString(n int) string {
	const up, lo = "0123456789ABCDEF", "0123456789abcdef"
	b := make([]byte, n)
	mode := c.rng.Intn(3)
	for i := range b {
		switch mode {
		case 0:
			b[i] = up[c.rng.Intn(16)]
		case 1:
			b[i] = lo[c.rng.Intn(16)]
		default:
			if c.rng.Intn(2) == 0 {
				b[i] = up[c.rng.Intn(16)]
			} else {
				b[i] = lo[c.rng.Intn(16)]
			}
		}
	}
	return string(b)
}

func scenC17(c *ctx) {
	id := 0
	k := func(tag string) string { id++; return fmt.Sprintf("C17/%s/%d", tag, id) }
	// 64-bit values
	for _, a := range ctrAnchors {
		for off := -1; off <= 1; off++ {
			v := a + uint64(int64(off))
			c.rec.Emit(doTo8BE(k("to8"), v))
			s := fmt.Sprintf("%d", v)
			c.rec.Emit(doParseDec(k("dec8"), s, 0))
			c.rec.Emit(doParseDec(k("dec64"), s, 1))
			c.rec.Emit(doParseDec(k("dec8z"), "000"+s, id%2))
		}
	}
	for i := 0; i < c.n(100, 3000); i++ {
		v := c.someCounter()
		c.rec.Emit(doTo8BE(k("to8r"), v))
		c.rec.Emit(doParseDec(k("decr"), fmt.Sprintf("%d", v), i%2))
	}
	// decimal strings: lengths 0..300, signs, overlong, non-digits
	for _, s := range []string{"", "0", "00", "+1", "-1", "-0", "1 ", " 1", "1_000", "0x10", "1e3", "1.0", "١٢٣", "18446744073709551615", "18446744073709551616",
		"18446744073709551614", "99999999999999999999", "184467440737095516150", "000000000000000000000000000001", "12a", "a12", "１２３"} {
		c.rec.Emit(doParseDec(k("decs"), s, id%2))
	}
	for n := 1; n <= 300; n += 1 + c.n(6, 0) {
		c.rec.Emit(doParseDec(k("declen"), c.decString(n), n%2))
	}
	// LeftPadHex / MustHexPadLeft / ParseHexTimestamp
	for i := 0; i < c.n(150, 3000); i++ {
		n := c.rng.Intn(40)
		if i%10 == 0 {
			n = c.rng.Intn(300)
		}
		s := c.hexString(n)
		w := c.rng.Intn(48)
		if i%25 == 0 {
			w = []int{0, 1, 16, 255, 256, 1000, 65536, 1 << 20}[c.rng.Intn(8)]
		}
		c.rec.Emit(doLeftPadHex(k("lph"), s, w))
		c.rec.Emit(doLeftPadHex(k("lphany"), string(c.randBytes(c.rng.Intn(20))), c.rng.Intn(30)))
		size := c.rng.Intn(24)
		c.rec.Emit(doMustHexPadLeft(k("mhp"), s, size))
		c.rec.Emit(doParseHexTimestamp(k("pht"), s))
	}
	for n := 0; n <= 20; n++ {
		c.rec.Emit(doParseHexTimestamp(k("phtlen"), c.hexString(n)))
		c.rec.Emit(doMustHexPadLeft(k("mhplen"), c.hexString(n), 8))
	}
	for _, s := range []string{"", "0", "g", "0g", "132d0b6", "0000000000000000", "ffffffffffffffff", "FFFFFFFFFFFFFFFF", "1234567890abcdef0", " 12", "12 ", "+12", "-12", "0x12", "zz"} {
		c.rec.Emit(doParseHexTimestamp(k("phts"), s))
	}
	// the Must helper has no error result: text that is not hex is rejected by its documented panic, and a good
	// call right after it is unaffected
	for i, s := range []string{"g", "0g", "g0", "zz", " 12", "12 ", "+12", "-1", "0x12", "12345G", "abcdefg", "\x00\x00", "ＡＢ", "1 2", "1234567890abcdeX", "X234567890abcdef"} {
		for _, size := range []int{len(s), len(s)/2 + 1, 8, 20} {
			c.rec.Emit(doMustHexPadLeft(k("mhpbad"), s, size))
		}
		c.rec.Emit(doMustHexPadLeft(k("mhpafter"), c.hexString(2+i), 8))
	}
	for i := 0; i < c.n(20, 400); i++ {
		b := []byte(c.hexString(1 + c.rng.Intn(30)))
		b[c.rng.Intn(len(b))] = "gGxX zZ-+.,:/@`"[c.rng.Intn(15)]
		c.rec.Emit(doMustHexPadLeft(k("mhpbadrnd"), string(b), len(b)/2+c.rng.Intn(3)))
	}
	// HexInputToOCRA: all 2^5 x {valid, invalid, empty}
	valid := func() string { return c.hexString(2 * c.rng.Intn(20)) }
	invalid := func() string {
		switch c.rng.Intn(4) {
		case 0:
			return c.hexString(2*c.rng.Intn(10) + 1) // odd length
		case 1:
			return c.hexString(2*c.rng.Intn(5)) + "zz"
		case 2:
			return " " + c.hexString(2)
		}
		return "0x" + c.hexString(4)
	}
	for m := 0; m < 243; m++ { // 3^5
		if c.quick() && m%3 == 1 && m > 60 {
			continue
		}
		var f [5]string
		x := m
		for i := 0; i < 5; i++ {
			switch x % 3 {
			case 0:
				f[i] = ""
			case 1:
				f[i] = valid()
				if f[i] == "" {
					f[i] = "00"
				}
			case 2:
				f[i] = invalid()
			}
			x /= 3
		}
		c.rec.Emit(doHexInputToOCRA(k(fmt.Sprintf("hex5/%d", m)), f))
	}
	// decimal questions of every length 1..64 (odd numbers of hex digits included), malformed ones
	for n := 1; n <= 64; n++ {
		for r := 0; r < c.n(2, 12); r++ {
			c.rec.Emit(doParseDecimalChallenge(k(fmt.Sprintf("q%d", n)), c.decString(n)))
		}
	}
	for _, s := range []string{"", " ", "a", "12a", "1 2", "0", "00000000", "11111111", "99999999", "0x11", "1e5", "１２"} {
		c.rec.Emit(doParseDecimalChallenge(k("qs"), s))
	}
	// thin slices: powers of two and of ten and their neighbours (word and limb boundaries of any bignum
	// representation), values whose hex form has an odd number of digits, leading zeros
	for _, s := range c.decimalAnchors() {
		c.rec.Emit(doParseDecimalChallenge(k("qanchor"), s))
	}
	for _, s := range []string{"+5", "-5", strings.Repeat("9", 65), strings.Repeat("9", 200), strings.Repeat("9", 309)} {
		c.rec.Emit(doParseDecimalChallenge(k("qunspec"), s))
	}
	// a call that FAILS (or is outside the domain) followed by a short valid one: nothing of the failed call may
	// survive into the next (reused scratch memory, sticky state)
	for i := 0; i < c.n(40, 600); i++ {
		long := c.decString(20 + c.rng.Intn(200))
		bad := []string{"-" + long, long + "x", "+" + long, long + " ", long[:len(long)/2] + "-" + long[len(long)/2:]}[c.rng.Intn(5)]
		c.rec.Emit(doParseDecimalChallenge(k("poison/q"), bad))
		short := c.decString(1 + c.rng.Intn(12))
		c.rec.Emit(doParseDecimalChallenge(k("afterpoison/q"), short))
		hx := c.hexString(2 * (10 + c.rng.Intn(40)))
		c.rec.Emit(doParseHexTimestamp(k("poison/ts"), hx+"zz"))
		c.rec.Emit(doParseHexTimestamp(k("afterpoison/ts"), c.hexString(1+c.rng.Intn(15))))
		c.rec.Emit(doHexInputToOCRA(k("poison/hex5"), [5]string{hx, hx + "g", hx, "", hx}))
		c.rec.Emit(doHexInputToOCRA(k("afterpoison/hex5"), [5]string{c.hexString(16), c.hexString(2 * (4 + c.rng.Intn(8))), "", c.hexString(2 * c.rng.Intn(5)), ""}))
		c.rec.Emit(doParseDec(k("poison/dec"), long, i%2))
		c.rec.Emit(doParseDec(k("afterpoison/dec"), c.decString(1+c.rng.Intn(15)), i%2))
		if i%4 == 0 {
			if sa, err := rawSuiteArg("OCRA-1:HOTP-SHA1-6:QN08"); err == nil {
				c.rec.Emit(doParseDecimalChallenge(k("poison/q2"), "-"+long))
				c.rec.Emit(doOCRAQuestion(k("afterpoison/e2e"), b32(c.randBytes(20)), sa, short, otp.OCRAInput{}))
			}
		}
	}
	// end to end: numeric-challenge suites of every hash and digit count
	for _, h := range []string{"SHA1", "SHA256", "SHA512"} {
		for d := 4; d <= 10; d++ {
			for _, q := range []string{"QN08", "QN10"} {
				for _, pre := range []string{"", "C-"} {
					sa, err := rawSuiteArg(fmt.Sprintf("OCRA-1:HOTP-%s-%d:%s%s", h, d, pre, q))
					if err != nil {
						continue
					}
					for r := 0; r < c.n(2, 10); r++ {
						n := 1 + c.rng.Intn(64)
						in := c.admissibleInput(sa.su.Cfg, r)
						in.Challenge = nil
						key := c.someKey()
						c.rec.Emit(doOCRAQuestion(k("e2e"), b32(key), sa, c.decString(n), in))
					}
				}
			}
		}
	}
}

// ---------------- C16 ----------------
var urlPieces = []string{"My Company", "a b", "100%", "a/b", "x?y", "h#t", "a&b", "k=v", "p+q", "me@example.com", "Ünïcödé", "日本", "%41", "%zz", "/lead", "trail/", "..", "a\\b", "\"q\"", "<t>", "tab\there", "nl\nhere", "\xff\xfe", "a;b", "~tilde", "sp ace@x.y", "é", "𝔘", "%", "%%", "+", " ", "  x  "}

func (c *ctx) urlText(allowColon bool) string {
	var s string
	switch c.rng.Intn(4) {
	case 0:
		s = urlPieces[c.rng.Intn(len(urlPieces))]
	case 1:
		s = urlPieces[c.rng.Intn(len(urlPieces))] + urlPieces[c.rng.Intn(len(urlPieces))]
	case 2:
		s = fmt.Sprintf("Issuer%d", c.rng.Intn(100))
	default:
		b := c.randBytes(1 + c.rng.Intn(12))
		for i := range b {
			b[i] = 32 + b[i]%95
		}
		s = string(b)
	}
	if allowColon && c.rng.Intn(4) == 0 {
		s += ":" + urlPieces[c.rng.Intn(len(urlPieces))]
	}
	if !allowColon {
		s = strings.ReplaceAll(s, ":", ";")
	}
	return s
}

func scenC16(c *ctx) {
	id := 0
	k := func(tag string) string { id++; return fmt.Sprintf("C16/%s/%d", tag, id) }
	// every special piece in every position
	for _, piece := range urlPieces {
		for _, kind := range []string{"totp", "hotp"} {
			c.rec.Emit(doURLRoundTrip(k("iss"), kind, strings.ReplaceAll(piece, ":", ";"), "alice@example.com", "JBSWY3DPEHPK3PXP", 6, 0, 30))
			c.rec.Emit(doURLRoundTrip(k("acc"), kind, "Example", piece, "JBSWY3DPEHPK3PXP", 8, 1, 60))
			c.rec.Emit(doURLRoundTrip(k("sec"), kind, "Example", "bob", piece, 10, 2, 0))
		}
	}
	// every single ASCII character (one reserved character mishandled is a thin slice of "all strings")
	for ch := 1; ch < 128; ch++ {
		if c.quick() && ch%2 == 1 && ((ch >= '0' && ch <= '9') || (ch >= 'a' && ch <= 'z') || (ch >= 'A' && ch <= 'Z')) {
			continue
		}
		t := string(rune(ch))
		kind := []string{"totp", "hotp"}[ch%2]
		if ch != ':' {
			c.rec.Emit(doURLRoundTrip(k("issch"), kind, "Ex"+t+"ample", "alice", "JBSWY3DPEHPK3PXP", 6, 0, 30))
			c.rec.Emit(doURLRoundTrip(k("issch1"), kind, t+"Example"+t, "alice", "JBSWY3DPEHPK3PXP", 6, 0, 30))
		}
		c.rec.Emit(doURLRoundTrip(k("accch"), kind, "Example", "al"+t+"ice", "JBSWY3DPEHPK3PXP", 8, 1, 60))
		c.rec.Emit(doURLRoundTrip(k("accch1"), kind, "Example", t+"alice"+t, "JBSWY3DPEHPK3PXP", 8, 1, 60))
		c.rec.Emit(doURLRoundTrip(k("secch"), kind, "Example", "alice", "JBSW"+t+"Y3DP", 6, 2, 30))
	}
	// digits 0..255, periods, hashes
	for d := 0; d < 256; d++ {
		if c.quick() && d > 12 && d%9 != 0 && d < 250 {
			continue
		}
		per := []uint64{0, 1, 30, 60, 1 << 31}[c.rng.Intn(5)]
		c.rec.Emit(doURLRoundTrip(k("dig"), []string{"totp", "hotp"}[d%2], c.urlText(false), c.urlText(true), b32np(c.randBytes(10)), uint8(d), uint8(d%3), per))
	}
	for _, per := range []uint64{0, 1, 2, 29, 30, 31, 60, 3600, 1<<31 - 1, 1 << 31} {
		for a := uint8(0); a < 3; a++ {
			c.rec.Emit(doURLRoundTrip(k("per"), "totp", "Iss", "acc", "JBSWY3DPEHPK3PXP", 6, a, per))
			c.rec.Emit(doURLRoundTrip(k("perh"), "hotp", "Iss", "acc", "JBSWY3DPEHPK3PXP", 6, a, per))
		}
	}
	// empty fields
	for m := 0; m < 8; m++ {
		f := func(bit int, s string) string {
			if m&bit != 0 {
				return ""
			}
			return s
		}
		c.rec.Emit(doURLRoundTrip(k("empty"), []string{"totp", "hotp"}[m%2], f(1, "Iss"), f(2, "acc"), f(4, "SECRET"), 6, 0, 30))
	}
	// random
	for i := 0; i < c.n(700, 40000); i++ {
		c.rec.Emit(doURLRoundTrip(k("rnd"), []string{"totp", "hotp"}[i%2], c.urlText(false), c.urlText(true), c.urlText(true),
			uint8(c.rng.Intn(256)), uint8(c.rng.Intn(3)), []uint64{0, 30, uint64(c.rng.Intn(100000)), uint64(c.rng.Int63n(1 << 31))}[c.rng.Intn(4)]))
	}
	// out of the round-trip domain (issuer with a colon, unsupported hash): recorded, not judged
	c.rec.Emit(doURLRoundTrip(k("colon"), "totp", "a:b", "acc", "S", 6, 0, 30))
	c.rec.Emit(doURLRoundTrip(k("badalg"), "totp", "a", "acc", "S", 6, 7, 30))
	// parse-only clause: digits / period texts
	texts := []string{"6", "8", "0", "10", "255", "256", "257", "262", "300", "511", "512", "1000", "65536", "65542", "4294967302", "-1", "-6", "-250", "-256", "+6", "006", "0006", "6.0", "1e1", "six", "", " 6", "6 ", "0x6", "６",
		"2147483647", "2147483648", "4294967295", "4294967296", "4294967326", "9223372036854775807", "9223372036854775808", "-9223372036854775808", "-9223372036854775809", "18446744073709551616", "99999999999999999999999", "-30", "-0", "+0", "30", "1", "3600"}
	for _, typ := range []string{"totp", "hotp", "TOTP", "Hotp", "tOtP"} {
		for _, t := range texts {
			if c.quick() && typ != "totp" && c.rng.Intn(3) != 0 {
				continue
			}
			c.rec.Emit(doURLParse(k("pd"), typ, true, t, false, ""))
			c.rec.Emit(doURLParse(k("pp"), typ, false, "", true, t))
		}
	}
	for i := 0; i < c.n(200, 5000); i++ {
		dt := fmt.Sprintf("%d", c.rng.Int63n(1<<uint(1+c.rng.Intn(40)))-int64(c.rng.Intn(300)))
		pt := fmt.Sprintf("%d", c.rng.Int63n(1<<uint(1+c.rng.Intn(62)))-int64(c.rng.Intn(300)))
		c.rec.Emit(doURLParse(k("prnd"), "totp", true, dt, true, pt))
	}
}

// randGated: rounds of W concurrent RandomSecret calls that meet inside the random source (see rendezvous)
func (c *ctx) randGated(prop string, rounds int) {
	// real parallelism: between "bytes read" and "secret encoded" there is no gate to hold a call at, the calls
	// released together must actually run at the same time
	procs := runtime.NumCPU()
	if procs < 4 {
		procs = 4
	}
	defer runtime.GOMAXPROCS(runtime.GOMAXPROCS(procs))
	for r := 0; r < rounds; r++ {
		w := []int{4, 8, 16, 32, 16}[r%5]
		kind := []string{"rnd", "lin"}[r%2]
		st := installStream(kind, uint64(c.rng.Int63()), false)
		st.gate = &rendezvous{}
		tag := fmt.Sprintf("%s/gated%d-%s-%d", prop, w, kind, r)
		c.rec.Hold()
		id := 0
		for round := 0; round < 8; round++ {
			st.gate.arm(w)
			evs := make([]Event, w)
			var wg sync.WaitGroup
			for i := 0; i < w; i++ {
				id++
				a := uint8(c.rng.Intn(3))
				wg.Add(1)
				go func(i, id int) {
					defer wg.Done()
					evs[i] = doRandomSecret(fmt.Sprintf("%s/%d", tag, id), a)
				}(i, id)
			}
			wg.Wait()
			for i := range evs {
				m := evs[i].X.(map[string]any)
				m["stream"], m["conc"] = kind, true
				c.rec.Emit(evs[i])
			}
		}
		st.gate = nil
		end := newEvent("StreamEnd", tag+"/end")
		end.X = map[string]any{"pos": st.pos}
		c.rec.Emit(end)
		c.rec.Release()
	}
}

// decimalAnchors: 2^k and 10^k with neighbours, up to 64 decimal digits
func (c *ctx) decimalAnchors() []string {
	var out []string
	seen := map[string]bool{}
	add := func(x *big.Int) {
		if x.Sign() < 0 {
			return
		}
		t := x.String()
		if len(t) <= 64 && !seen[t] {
			seen[t] = true
			out = append(out, t)
		}
	}
	one := big.NewInt(1)
	for k := uint(0); k <= 212; k++ {
		if c.quick() && k%8 != 0 && k%32 != 31 && k%32 != 1 && k != 53 && k != 63 && k != 65 {
			continue
		}
		p := new(big.Int).Lsh(one, k)
		add(new(big.Int).Sub(p, one))
		add(p)
		add(new(big.Int).Add(p, one))
	}
	ten := big.NewInt(10)
	for k := int64(1); k <= 63; k++ {
		if c.quick() && k%3 != 0 && k != 19 && k != 20 && k != 38 {
			continue
		}
		p := new(big.Int).Exp(ten, big.NewInt(k), nil)
		add(new(big.Int).Sub(p, one))
		add(p)
		add(new(big.Int).Add(p, one))
	}
	for _, z := range []string{"0", "00", "01", "007", "0000000000000000000000000000000000000000000000000000000000000001"} {
		out = append(out, z)
	}
	return out
}

// ---------------- C08 ----------------
func scenC08(c *ctx) {
	id := 0
	algs := []uint8{0, 1, 2, 3, 4, 255}
	batch := func(tag string, kind string, short bool, n int, workers int) {
		st := installStream(kind, uint64(c.rng.Int63()), short)
		c.rec.Hold()
		var evs []Event
		if workers <= 1 {
			for i := 0; i < n; i++ {
				id++
				a := algs[c.rng.Intn(len(algs))]
				if c.rng.Intn(3) != 0 {
					a = uint8(c.rng.Intn(3))
				}
				evs = append(evs, doRandomSecret(fmt.Sprintf("C08/%s/%d", tag, id), a))
			}
		} else {
			var mu sync.Mutex
			var wg sync.WaitGroup
			plan := make([]uint8, n)
			for i := range plan {
				plan[i] = uint8(c.rng.Intn(3))
				if c.rng.Intn(6) == 0 {
					plan[i] = algs[c.rng.Intn(len(algs))]
				}
			}
			base := id
			id += n
			ch := make(chan int, n)
			for i := 0; i < n; i++ {
				ch <- i
			}
			close(ch)
			for w := 0; w < workers; w++ {
				wg.Add(1)
				go func() {
					defer wg.Done()
					for i := range ch {
						e := doRandomSecret(fmt.Sprintf("C08/%s/%d", tag, base+i+1), plan[i])
						mu.Lock()
						evs = append(evs, e)
						mu.Unlock()
					}
				}()
			}
			wg.Wait()
		}
		for i := range evs {
			m := evs[i].X.(map[string]any)
			m["stream"], m["conc"] = kind, workers > 1
			c.rec.Emit(evs[i])
		}
		end := newEvent("StreamEnd", fmt.Sprintf("C08/%s/end", tag))
		end.X = map[string]any{"pos": st.pos}
		c.rec.Emit(end)
		c.rec.Release()
	}
	c.randGated("C08", c.n(6, 40))
	for r := 0; r < c.n(6, 60); r++ {
		batch(fmt.Sprintf("seq-lin-%d", r), "lin", false, 10+c.rng.Intn(20), 1)
		batch(fmt.Sprintf("seq-rnd-%d", r), "rnd", false, 10+c.rng.Intn(20), 1)
		batch(fmt.Sprintf("seq-short-%d", r), "rnd", true, 10+c.rng.Intn(20), 1)
		batch(fmt.Sprintf("seq-shortlin-%d", r), "lin", true, 10+c.rng.Intn(10), 1)
		w := []int{2, 4, 8, 16}[c.rng.Intn(4)]
		batch(fmt.Sprintf("conc%d-rnd-%d", w, r), "rnd", false, 20+c.rng.Intn(30), w)
		batch(fmt.Sprintf("conc%d-short-%d", w, r), "lin", true, 20+c.rng.Intn(30), w)
	}
	// every enum value once
	st := installStream("lin", 1, false)
	c.rec.Hold()
	for a := 0; a < 256; a++ {
		if c.quick() && a > 8 && a%17 != 0 && a != 255 {
			continue
		}
		e := doRandomSecret(fmt.Sprintf("C08/enum/%d", a), uint8(a))
		e.X.(map[string]any)["stream"] = "lin"
		c.rec.Emit(e)
	}
	end := newEvent("StreamEnd", "C08/enum/end")
	end.X = map[string]any{"pos": st.pos}
	c.rec.Emit(end)
	c.rec.Release()
}

// ---------------- C12 ----------------
// shaped returns a slice of length n presented with the given relation of length to capacity, and
// the parent array that must stay unchanged.
func (c *ctx) shaped(n, shape int) (s []byte, parent []byte) {
	switch shape % 3 {
	case 0: // len == cap
		parent = c.randBytes(n)
		return parent[:n:n], parent
	case 1: // spare capacity filled with canary bytes
		parent = make([]byte, n+1+c.rng.Intn(200))
		copy(parent, c.randBytes(n))
		for i := n; i < len(parent); i++ {
			parent[i] = 0xC5
		}
		return parent[:n], parent
	default: // sub-slice in the middle of a larger array
		lead := 1 + c.rng.Intn(40)
		parent = make([]byte, lead+n+1+c.rng.Intn(200))
		for i := range parent {
			parent[i] = 0xA7
		}
		copy(parent[lead:], c.randBytes(n))
		return parent[lead : lead+n], parent
	}
}

func cat(ps ...[]byte) B {
	var out []byte
	for _, p := range ps {
		out = append(out, p...)
		out = append(out, 0xFE)
	}
	return nz(out)
}

func scenC12(c *ctx) {
	id := 0
	k := func(tag string) string { id++; return fmt.Sprintf("C12/%s/%d", tag, id) }
	lens := []int{0, 1, 7, 8, 9, 127, 128, 129, 140}
	names := listSuites()
	var retainedStr []string
	var retainedCopy []string
	framed := func(mk func() Event, parents [][]byte) Event {
		pre := cat(parents...)
		preCopy := append(B{}, pre...)
		g0 := globalsDigest()
		e := mk()
		y := yMap(&e)
		y["frame"] = map[string]any{"pre": preCopy, "post": cat(parents...)}
		y["glob"] = map[string]any{"pre": nz(g0), "post": nz(globalsDigest())}
		if e.Kind == "value" && len(e.Val) > 0 && e.Op != "ValidateOCRA" {
			// keep the returned string itself (not a copy) for the stability clause
			retainedStr = append(retainedStr, e.ret)
			retainedCopy = append(retainedCopy, string(append([]byte{}, e.ret...)))
		}
		return e
	}
	scribble := func(parents [][]byte) {
		for _, p := range parents {
			for i := range p {
				p[i] ^= 0x5A
			}
		}
	}
	// OCRA inputs: every field x shape x length, through the three entry points
	for fi := 0; fi < 5; fi++ {
		for _, ln := range lens {
			for shape := 0; shape < 3; shape++ {
				if c.quick() && (fi+ln+shape)%2 == 1 {
					continue
				}
				cf := c.handBuilt(31, c.rng.Intn(3), 4+c.rng.Intn(7), []byte("OCRA-1:X"))
				if len(names) > 0 && c.rng.Intn(2) == 0 {
					if sa, err := rawSuiteArg(c.pickName(names)); err == nil {
						cf = sa.su.Cfg
					}
				}
				var in otp.OCRAInput
				var parents [][]byte
				mk := func(want int, idx int) []byte {
					n := want
					if idx == fi {
						n = ln
					}
					s, p := c.shaped(n, shape+idx)
					parents = append(parents, p)
					return s
				}
				in.Counter = mk(8, 0)
				in.Challenge = mk(minChal(cf.Chal)+c.rng.Intn(20), 1)
				in.Password = mk(pwLen(cf.PH), 2)
				in.SessionInfo = mk(c.rng.Intn(129), 3)
				in.Timestamp = mk(8, 4)
				sa := cfgSuiteArg(cf)
				key := c.someKey()
				tag := fmt.Sprintf("f%d/l%d/s%d", fi, ln, shape)
				g := framed(func() Event { return doGenerateOCRA(k("gen/"+tag), b32(key), sa, in) }, parents)
				c.rec.Emit(g)
				c.rec.Emit(framed(func() Event { return doValidateOCRA(k("val/"+tag), b32(key), string(g.Val), sa, in) }, parents))
				c.rec.Emit(framed(func() Event { return doInputValidate(k("inp/"+tag), cf, in) }, parents))
				scribble(parents)
			}
		}
	}
	// parameter structs: the caller's struct and the exported default pointers themselves
	for i := 0; i < c.n(40, 600); i++ {
		key := c.someKey()
		p := P{Digits: okDigits[c.rng.Intn(len(okDigits))], Alg: uint8(c.rng.Intn(3)), Skew: uint64(c.rng.Intn(11)), Period: []uint64{0, 30, 60}[c.rng.Intn(3)]}
		if i%4 == 0 {
			p = P{} // zero-valued struct
		}
		lp := p.ptr()
		snap := func() []byte { return []byte(fmt.Sprintf("%+v", *lp)) }
		run := func(mk func() Event) {
			pre := snap()
			g0 := globalsDigest()
			e := mk()
			y := yMap(&e)
			y["frame"] = map[string]any{"pre": nz(pre), "post": nz(snap())}
			y["glob"] = map[string]any{"pre": nz(g0), "post": nz(globalsDigest())}
			c.rec.Emit(e)
		}
		ctr := c.someCounter() >> 1
		t := time.Unix(c.rng.Int63n(1<<40), 0)
		run(func() Event { return doGenerateHOTPPtr(k("phg"), b32(key), ctr, p, lp) })
		run(func() Event {
			return doValidateHOTPPtr(k("phv"), b32(key), refHOTP(key, ctr, int(p.Digits), int(p.Alg)), ctr, p, lp)
		})
		run(func() Event { return doGenerateTOTPPtr(k("ptg"), b32(key), t, p, lp) })
		run(func() Event { return doValidateTOTPPtr(k("ptv"), b32(key), "123456", t, p, lp) })
		// nil parameter and the exported defaults passed directly
		pn := P{Nil: true}
		run(func() Event { return doGenerateHOTP(k("nilhg"), b32(key), ctr, pn) })
		run(func() Event { return doValidateHOTP(k("nilhv"), b32(key), "000000", ctr, pn) })
		run(func() Event { return doGenerateTOTP(k("niltg"), b32(key), t, pn) })
		run(func() Event { return doValidateTOTP(k("niltv"), b32(key), "000000", t, pn) })
		dh := P{Digits: uint8(otp.DefaultHOTPParam.Digits), Alg: uint8(otp.DefaultHOTPParam.Algorithm), Skew: uint64(otp.DefaultHOTPParam.Skew), Period: uint64(otp.DefaultHOTPParam.Period)}
		dt := P{Digits: uint8(otp.DefaultTOTPParam.Digits), Alg: uint8(otp.DefaultTOTPParam.Algorithm), Skew: uint64(otp.DefaultTOTPParam.Skew), Period: uint64(otp.DefaultTOTPParam.Period)}
		run(func() Event { return doValidateHOTPPtr(k("defhv"), b32(key), "000000", ctr, dh, otp.DefaultHOTPParam) })
		run(func() Event { return doGenerateTOTPPtr(k("deftg"), b32(key), t, dh, otp.DefaultHOTPParam) }) // period 0 in the default HOTP set
		run(func() Event { return doValidateTOTPPtr(k("deftv"), b32(key), "000000", t, dt, otp.DefaultTOTPParam) })
		run(func() Event { return doGenerateTOTPPtr(k("defhotptv"), b32(key), t, dh, otp.DefaultHOTPParam) })
	}
	// URL parameters and parsed URLs
	for i := 0; i < c.n(30, 400); i++ {
		g0 := globalsDigest()
		e := doURLRoundTrip(k("url"), []string{"totp", "hotp"}[i%2], c.urlText(false), c.urlText(true), "JBSWY3DPEHPK3PXP", uint8(c.rng.Intn(11)), uint8(c.rng.Intn(3)), []uint64{0, 30}[i%2])
		yMap(&e)["glob"] = map[string]any{"pre": nz(g0), "post": nz(globalsDigest())}
		c.rec.Emit(e)
		// (type, scheme and parameter names in every letter case: a parser that normalises must not do it in place)
		raw := fmt.Sprintf("%s://%s/%s:%s?secret=ABC&digits=%d&period=%d&%s=SHA256&issuer=x", []string{"otpauth", "OTPAUTH", "otpauth", "OtpAuth"}[i%4],
			[]string{"totp", "TOTP", "Totp", "hotp", "HOTP", "hOtP"}[i%6], url.PathEscape(c.urlText(false)), url.PathEscape(c.urlText(true)), c.rng.Intn(12), c.rng.Intn(100),
			[]string{"algorithm", "Algorithm", "ALGORITHM"}[i%3])
		if u, err := url.Parse(raw); err == nil {
			pre := fmt.Sprintf("%+v|%s", *u, u.String())
			e := doParseURLRaw(k("parse"), u)
			yMap(&e)["frame"] = map[string]any{"pre": S(pre), "post": S(fmt.Sprintf("%+v|%s", *u, u.String()))}
			c.rec.Emit(e)
		}
	}
	// registry: values handed out are copies; modifying them does not reach the registry
	for i := 0; i < c.n(20, 200); i++ {
		g0 := globalsDigest()
		e := newEvent("RegistryProbe", k("registry"))
		invoke(&e, func() result {
			l := otp.ListSuites()
			for j := range l {
				l[j] = "scribbled"
			}
			if len(names) > 0 {
				n := c.pickName(names)
				cfg := otp.SuiteConfigFromRaws(n)
				cfg.Digits, cfg.Raw, cfg.IncludeCounter = 99, "scribbled", !cfg.IncludeCounter
				if s, err := otp.NewRawSuite(n); err == nil {
					c2 := s.Config()
					c2.Digits = 77
					rs := otp.MustRawSuite(n)
					rs.SuiteConfig.Digits = 55
					_ = rs
				}
			}
			return result{}
		})
		yMap(&e)["glob"] = map[string]any{"pre": nz(g0), "post": nz(globalsDigest())}
		c.rec.Emit(e)
	}
	// every kind of operation leaves the exported defaults and the registry alone (incl. parsing of
	// unregistered suite strings, lookups of unknown names, helper calls)
	globbed := func(e func() Event) {
		g0 := globalsDigest()
		ev := e()
		yMap(&ev)["glob"] = map[string]any{"pre": nz(g0), "post": nz(globalsDigest())}
		c.rec.Emit(ev)
	}
	for i := 0; i < c.n(60, 800); i++ {
		name := c.grammarName()
		switch i % 6 {
		case 1:
			name = strings.ToLower(name)
		case 2:
			name = "OCRA-1:HOTP-SHA1-6:QN08-T" + fmt.Sprint(1+c.rng.Intn(59)) + "M"
		case 3:
			name = string(c.randBytes(c.rng.Intn(20)))
		case 4:
			if len(names) > 0 {
				name = c.pickName(names)
			}
		}
		globbed(func() Event { return doNewRawSuite(k("parsed"), name, false) })
		if sa, err := rawSuiteArg(name); err == nil {
			in := c.admissibleInput(sa.su.Cfg, i)
			key := c.someKey()
			globbed(func() Event { return doGenerateOCRA(k("parsedgen"), b32(key), sa, in) })
		}
		cf := c.handBuilt(c.rng.Intn(32), c.rng.Intn(3), 4+c.rng.Intn(7), []byte(name))
		globbed(func() Event { return doSuiteValidate(k("newsuite"), cf, 2) })
		globbed(func() Event { return doDigitsFromStr(k("dfs"), name) })
		globbed(func() Event {
			return doAlgorithmFromStr(k("afs"), []string{"SHA1", "SHA256", "SHA512", "sha1", name}[i%5])
		})
		globbed(func() Event { return doAlgString(k("as"), uint8(c.rng.Intn(256))) })
		globbed(func() Event { return doDecodeSecret(k("ds"), c.someSpelling(c.someKey())) })
		globbed(func() Event {
			return doHexInputToOCRA(k("hex"), [5]string{c.hexString(16), c.hexString(16), "", "", c.hexString(16)})
		})
	}
	// results stay what they were after arguments were overwritten and many later calls were made
	for i := 0; i < 200; i++ {
		key := c.someKey()
		_ = doGenerateHOTP("churn", b32(key), c.someCounter(), P{Digits: okDigits[c.rng.Intn(len(okDigits))], Alg: uint8(c.rng.Intn(3))})
	}
	e := newEvent("RetainedProbe", k("retained"))
	yMap(&e)["retained"] = map[string]any{"before": S(strings.Join(retainedCopy, "|")), "after": S(strings.Join(retainedStr, "|"))}
	c.rec.Emit(e)
}

// variants that pass a caller-owned *otp.Param (so that the caller's struct can be inspected afterwards)
func doGenerateHOTPPtr(scn, secret string, ctr uint64, p P, lp *otp.Param) Event {
	e := newEvent("GenerateHOTP", scn)
	e.Secret, e.Ctr = S(secret), W64(ctr)
	p.fill(&e)
	var o orcSet
	if key, ok := lenientKey(secret); ok {
		o.add(int(p.Alg), key, W64(ctr))
	}
	e.Orc = o.entries()
	invoke(&e, func() result {
		s, err := otp.GenerateHOTP(secret, ctr, lp)
		return result{val: []byte(s), err: err}
	})
	return e
}

func doValidateHOTPPtr(scn, secret, code string, ctr uint64, p P, lp *otp.Param) Event {
	e := newEvent("ValidateHOTP", scn)
	e.Secret, e.Code, e.Ctr = S(secret), S(code), W64(ctr)
	p.fill(&e)
	var o orcSet
	if key, ok := lenientKey(secret); ok && p.Skew <= 10 {
		o.counterWindow(int(p.Alg), key, ctr, int(p.Skew)+margin)
	}
	e.Orc = o.entries()
	invoke(&e, func() result {
		ok, err := otp.ValidateHOTP(secret, code, ctr, lp)
		return result{ok: ok, err: err}
	})
	return e
}

func doGenerateTOTPPtr(scn, secret string, t time.Time, p P, lp *otp.Param) Event {
	e := newEvent("GenerateTOTP", scn)
	e.Secret, e.Sec = S(secret), W64(uint64(t.Unix()))
	p.fill(&e)
	alg, _, per := p.totp()
	st := stepOf(t, per)
	e.Step = W64(st)
	var o orcSet
	if key, ok := lenientKey(secret); ok {
		o.add(alg, key, W64(st))
	}
	e.Orc = o.entries()
	invoke(&e, func() result {
		s, err := otp.GenerateTOTP(secret, t, lp)
		return result{val: []byte(s), err: err}
	})
	return e
}

func doValidateTOTPPtr(scn, secret, code string, t time.Time, p P, lp *otp.Param) Event {
	e := newEvent("ValidateTOTP", scn)
	e.Secret, e.Code, e.Sec = S(secret), S(code), W64(uint64(t.Unix()))
	p.fill(&e)
	alg, skew, per := p.totp()
	st := stepOf(t, per)
	e.Step = W64(st)
	var o orcSet
	if key, ok := lenientKey(secret); ok && skew <= 10 {
		o.counterWindow(alg, key, st, int(skew)+margin)
	}
	e.Orc = o.entries()
	invoke(&e, func() result {
		ok, err := otp.ValidateTOTP(secret, code, t, lp)
		return result{ok: ok, err: err}
	})
	return e
}

// ---------------- C10 ----------------
func (c *ctx) weirdString() string {
	switch c.rng.Intn(12) {
	case 0:
		return ""
	case 1:
		return " \t\n"
	case 2:
		if !c.quick() && c.rng.Intn(12) == 0 {
			return string(c.randBytes(65536))
		}
		return string(c.randBytes(2000))
	case 3:
		return "\xff\xfe\xfd"
	case 4:
		return "a\x00b"
	case 5:
		if !c.quick() && c.rng.Intn(12) == 0 {
			return strings.Repeat("A", 65536)
		}
		return strings.Repeat("A", 4096)
	case 6:
		return strings.Repeat("=", 1+c.rng.Intn(40))
	case 7:
		return "OCRA-1:HOTP-SHA1-6:QN08"
	case 8:
		return strings.Repeat("9", 1+c.rng.Intn(400))
	case 9:
		return "-" + strings.Repeat("1", c.rng.Intn(30))
	case 10:
		return b32(c.randBytes(c.rng.Intn(300)))
	}
	return string(c.randBytes(c.rng.Intn(24)))
}

func (c *ctx) weirdBytes() []byte {
	switch c.rng.Intn(8) {
	case 0:
		return nil
	case 1:
		return []byte{}
	case 2:
		if !c.quick() && c.rng.Intn(12) == 0 {
			return c.randBytes(65536)
		}
		return c.randBytes(3000)
	case 3:
		return c.randBytes(8)
	case 4:
		return c.randBytes(128)
	case 5:
		return c.randBytes(129)
	}
	return c.randBytes(c.rng.Intn(200))
}

var weirdInts = []int{0, 1, -1, 3, 4, 10, 11, 12, 255, 256, 1 << 20, -(1 << 20), 1<<30 - 1, -(1 << 30)}

func (c *ctx) weirdCfg() Cfg {
	pick := func() int { return weirdInts[c.rng.Intn(len(weirdInts))] }
	cf := Cfg{Raw: S(c.weirdString()), Hash: c.rng.Intn(256), Digits: pick(), Chal: pick(), PH: pick(), TS: pick(),
		C: c.rng.Intn(2) == 0, Q: c.rng.Intn(2) == 0, P: c.rng.Intn(2) == 0, S: c.rng.Intn(2) == 0, T: c.rng.Intn(2) == 0}
	if len(cf.Raw) > 3000 {
		cf.Raw = cf.Raw[:3000]
	}
	if c.rng.Intn(3) == 0 {
		cf.Hash = c.rng.Intn(3)
	}
	if c.rng.Intn(3) == 0 {
		cf.Digits = 4 + c.rng.Intn(7)
	}
	if c.rng.Intn(3) == 0 {
		cf.Chal = c.rng.Intn(7)
		cf.PH = c.rng.Intn(4)
	}
	return cf
}

var weirdTimes = []int64{0, 1, -1, 29, 30, 1 << 31, 1 << 32, 1 << 40, 1 << 62, 1<<63 - 1, -(1 << 62), math.MinInt64 + 1, -62135596800, 253402300799, 253402300800}
var weirdU64 = []uint64{0, 1, 2, 10, 11, 29, 30, 255, 1 << 31, 1 << 32, 1<<63 - 1, 1 << 63, 1<<64 - 1}

func scenC10(c *ctx) {
	id := 0
	k := func(tag string) string { id++; return fmt.Sprintf("C10/%s/%d", tag, id) }
	wp := func() P {
		p := P{Digits: uint8(c.rng.Intn(256)), Alg: uint8(c.rng.Intn(256)), Skew: weirdU64[c.rng.Intn(len(weirdU64))], Period: weirdU64[c.rng.Intn(len(weirdU64))]}
		switch c.rng.Intn(5) {
		case 0:
			p = P{Nil: true}
		case 1:
			p = P{}
		case 2:
			p.Digits, p.Alg = okDigits[c.rng.Intn(len(okDigits))], uint8(c.rng.Intn(3))
		}
		return p
	}
	secretOf := func() string {
		if c.rng.Intn(3) == 0 {
			return c.weirdString()
		}
		return c.someSpelling(c.someKey())
	}
	// exhaustive over the two uint8 enums with everything else ordinary, on each HOTP/TOTP entry point
	key := c.randBytes(20)
	for d := 0; d < 256; d++ {
		for _, a := range []int{0, 1, 2, 3, 128, 255} {
			if c.quick() && d > 12 && (d+a)%11 != 0 {
				continue
			}
			p := P{Digits: uint8(d), Alg: uint8(a), Skew: 1, Period: 30}
			code := strings.Repeat("0", d%14)
			c.rec.Emit(doGenerateHOTP(k("enum/gh"), b32(key), 1, p))
			c.rec.Emit(doValidateHOTP(k("enum/vh"), b32(key), code, 1, p))
			c.rec.Emit(doGenerateTOTP(k("enum/gt"), b32(key), time.Unix(59, 0), p))
			c.rec.Emit(doValidateTOTP(k("enum/vt"), b32(key), code, time.Unix(59, 0), p))
		}
	}
	for a := 0; a < 256; a++ {
		c.rec.Emit(doAlgString(k("algstr"), uint8(a)))
		if a%5 == 0 || !c.quick() {
			e := doRandomSecretPlain(k("rs"), uint8(a))
			c.rec.Emit(e)
		}
	}
	// suite strings with one token damaged in every simple way
	for _, name := range c.suiteTokenEdits() {
		c.rec.Emit(doNewRawSuite(k("toked"), name, false))
	}
	n := c.n(700, 6000)
	for i := 0; i < n; i++ {
		t := time.Unix(weirdTimes[c.rng.Intn(len(weirdTimes))], int64(c.rng.Intn(1000000000)))
		if c.rng.Intn(2) == 0 {
			t = time.Unix(c.rng.Int63n(1<<40), 0)
		}
		if c.rng.Intn(20) == 0 {
			t = time.Time{}
		}
		ctr := weirdU64[c.rng.Intn(len(weirdU64))]
		code := c.weirdString()
		if len(code) > 3000 {
			code = code[:3000]
		}
		if c.rng.Intn(2) == 0 {
			code = strings.Repeat("0", c.rng.Intn(13))
		}
		sec := secretOf()
		if len(sec) > 3000 && c.quick() {
			sec = sec[:3000]
		}
		c.rec.Emit(doGenerateHOTP(k("gh"), sec, ctr, wp()))
		c.rec.Emit(doValidateHOTP(k("vh"), sec, code, ctr, wp()))
		c.rec.Emit(doGenerateTOTP(k("gt"), sec, t, wp()))
		c.rec.Emit(doValidateTOTP(k("vt"), sec, code, t, wp()))
		c.rec.Emit(doDecodeSecret(k("ds"), c.weirdString()))
		// OCRA with arbitrary configurations and inputs
		cf := c.weirdCfg()
		in := otp.OCRAInput{Counter: c.weirdBytes(), Challenge: c.weirdBytes(), Password: c.weirdBytes(), SessionInfo: c.weirdBytes(), Timestamp: c.weirdBytes()}
		if c.rng.Intn(2) == 0 {
			in = c.admissibleInput(cf, i)
		}
		sa := cfgSuiteArg(cf)
		if c.rng.Intn(3) == 0 {
			sa = suiteArg{s: otp.RawSuite{SuiteConfig: cf.lib()}, su: Su{Kind: "cfg", Name: B{}, Cfg: cf}}
		}
		c.rec.Emit(doGenerateOCRA(k("go"), sec, sa, in))
		c.rec.Emit(doValidateOCRA(k("vo"), sec, code, sa, in))
		c.rec.Emit(doInputValidate(k("iv"), cf, in))
		c.rec.Emit(doSuiteValidate(k("sv"), cf, i%3))
		c.rec.Emit(doSuiteGetters(k("getters"), cf))
		if i%3 == 0 {
			nm := c.weirdString()
			if len(nm) > 2000 {
				nm = nm[:2000]
			}
			c.rec.Emit(doNewRawSuite(k("nrs"), nm, false))
			c.rec.Emit(doNewRawSuite(k("nrsg"), c.grammarName()+[]string{"", "-", ":", "-T", "-T1", "-TM", "-T9999999999999999999S", "-S", "-Q", "-QN", "-P"}[c.rng.Intn(11)], false))
		}
		// helpers
		ws := c.weirdString()
		if len(ws) > 1500 {
			ws = ws[:1500]
		}
		c.rec.Emit(doParseDec(k("pd"), ws, i%2))
		c.rec.Emit(doLeftPadHex(k("lph"), ws, []int{0, 1, 7, 16, 1000, 1 << 20}[c.rng.Intn(6)]))
		c.rec.Emit(doParseHexTimestamp(k("pht"), ws))
		c.rec.Emit(doParseDecimalChallenge(k("pdc"), ws))
		c.rec.Emit(doHexInputToOCRA(k("hex5"), [5]string{clip(c.weirdString(), 200), ws, "", c.hexString(c.rng.Intn(9)), c.hexString(16)}))
		c.rec.Emit(doTo8BE(k("to8"), ctr))
		c.rec.Emit(doDigitsFromStr(k("dfs"), ws))
		c.rec.Emit(doAlgorithmFromStr(k("afs"), ws))
		if per := weirdU64[c.rng.Intn(len(weirdU64))]; per != 0 {
			c.rec.Emit(doTimeCounter(k("tc"), t, uint(per)))
		}
		// URLs
		c.rec.Emit(doURLRoundTrip(k("url"), []string{"totp", "hotp", "", "x"}[c.rng.Intn(4)], clip(c.weirdString(), 100), ws[:min(100, len(ws))], c.urlText(true), uint8(c.rng.Intn(256)), uint8(c.rng.Intn(256)), weirdU64[c.rng.Intn(len(weirdU64))]))
		c.rec.Emit(doURLParse(k("up"), c.urlText(true), true, ws[:min(60, len(ws))], true, c.urlText(true)))
		if i%10 == 0 {
			c.rec.Emit(doParseURLRaw(k("nilurl"), nil))
			c.rec.Emit(doParseURLRaw(k("emptyurl"), &url.URL{}))
			c.rec.Emit(doParseURLRaw(k("opaque"), &url.URL{Scheme: "otpauth", Opaque: "totp/x:y"}))
			c.rec.Emit(doParseURLRaw(k("odd"), &url.URL{Scheme: "otpauth", Host: "totp", Path: clip(c.weirdString(), 50), RawQuery: "digits=%zz&period=%"}))
			if u, err := url.Parse("otpauth://totp/%41%3A%42?secret=%00&digits=&period=&algorithm="); err == nil {
				c.rec.Emit(doParseURLRaw(k("esc"), u))
			}
		}
	}
}

func clip(s string, n int) string {
	if len(s) > n {
		return s[:n]
	}
	return s
}

func min(a, b int) int {
	if a < b {
		return a
	}
	return b
}

// Config() / String() of hand-built and zero-valued suites
func doSuiteGetters(scn string, cf Cfg) Event {
	e := newEvent("SuiteGetters", scn)
	e.X = map[string]any{"cfg": cf}
	invoke(&e, func() result {
		sc := cf.lib()
		_ = sc.Config()
		_ = sc.String()
		rs := otp.RawSuite{SuiteConfig: sc}
		_ = rs.Config()
		_ = rs.String()
		_ = rs.Validate()
		var zero otp.RawSuite
		_, _ = zero.Config(), zero.String()
		_ = otp.Digits(cf.Digits & 0xff).Int()
		_ = otp.IsKnownSuite(string(cf.Raw))
		_ = otp.SuiteConfigFromRaws(string(cf.Raw))
		_ = otp.ListSuites()
		return result{}
	})
	return e
}

// RandomSecret without stream substitution (C10: only "returns normally")
func doRandomSecretPlain(scn string, alg uint8) Event {
	e := newEvent("RandomSecretPlain", scn)
	e.X = map[string]any{"alg": int(alg)}
	invoke(&e, func() result {
		s, err := otp.RandomSecret(otp.Algorithm(alg))
		return result{val: []byte(s), err: err}
	})
	return e
}
