package main

import (
	"bufio"
	"bytes"
	"encoding/json"
	"flag"
	"fmt"
	"math/rand"
	"net/url"
	"os"
	"os/exec"
	"path/filepath"
	"strings"
	"time"

	"github.com/ja7ad/otp"
)

// Property C20: the wasm/JS binding, called under Node through globalThis and through the JS package's
// export object, against the native library specification. This file generates calls and merges what
// Node returned; the verdict is TLC's on WasmTrace.

type JArg struct {
	T    string `json:"t"` // string number nan inf huge undefined null boolean object array function
	S    B      `json:"s"`
	Lit  string `json:"lit"` // numeric literal passed to JS
	W    B      `json:"w"`   // |value| truncated toward zero, as 8-byte word (numbers up to 2^53)
	Neg  bool   `json:"neg"`
	Frac bool   `json:"frac"`
	Bo   bool   `json:"b"`
}

func jStr(s string) JArg { return JArg{T: "string", S: S(s), W: W64(0)} }
func jNum(v uint64) JArg { return JArg{T: "number", S: B{}, Lit: fmt.Sprintf("%d", v), W: W64(v)} }
func jFrac(v uint64, frac string) JArg {
	return JArg{T: "number", S: B{}, Lit: fmt.Sprintf("%d.%s", v, frac), W: W64(v), Frac: true}
}
func jNeg(lit string) JArg  { return JArg{T: "number", S: B{}, Lit: lit, W: W64(0), Neg: true} }
func jOther(t string) JArg  { return JArg{T: t, S: B{}, W: W64(0)} }
func jHuge(lit string) JArg { return JArg{T: "huge", S: B{}, Lit: lit, W: W64(0)} }

type JRet struct {
	T  string `json:"t"`
	S  B      `json:"s"`
	Bo bool   `json:"b"`
}

type wasmEvent struct {
	ID    int            `json:"id"`
	Scn   string         `json:"scn"`
	Via   string         `json:"via"`
	Fn    string         `json:"fn"`
	Probe bool           `json:"probe"`
	Cls   string         `json:"cls"` // wellformed | malformed (the generator's intention; the specification classifies itself)
	Args  []JArg         `json:"args"`
	Ret   JRet           `json:"ret"`
	Step0 B              `json:"step0"`
	Nat   JRet           `json:"nat"` // what the NATIVE library of the same tree answers for the same call (verdict calls only)
	Orc   []Mac          `json:"orc"`
	Up    map[string]any `json:"up"`
}

type wasmGen struct {
	c   *ctx
	evs []wasmEvent
}

func (g *wasmGen) add(scn, fn, cls string, probe bool, args []JArg, fill func(*wasmEvent)) {
	e := wasmEvent{Scn: scn, Fn: fn, Cls: cls, Probe: probe, Args: args, Step0: W64(0), Orc: []Mac{}, Ret: JRet{T: "missing", S: B{}}, Nat: JRet{T: "none", S: B{}},
		Up: map[string]any{"ok": false, "issuer": B{}, "account": B{}, "secret": B{}, "digits": 0, "alg": 0, "period": W64(0), "host": B{}}}
	if fill != nil {
		fill(&e)
	}
	g.evs = append(g.evs, e)
}

var wasmDigits = []string{"6", "8", "9", "10", "6", "8", "9", "10", "7", "x", "08", "+8", "009", "010", "+10", " 8", "8 ", "8.0", "-8", ""}
var wasmAlgs = []string{"SHA1", "SHA256", "SHA512", "SHA256", "SHA512", "sha1", "sha256", "sha512", "Sha512", "MD5"}

func (g *wasmGen) key() ([]byte, string) {
	k := g.c.someKey()
	if len(k) == 0 {
		k = g.c.randBytes(10)
	}
	return k, g.c.someSpelling(k)
}

func (g *wasmGen) num53() uint64 {
	c := g.c
	switch c.rng.Intn(4) {
	case 0:
		return []uint64{0, 1, 2, 10, 1<<31 - 1, 1 << 31, 1<<32 - 1, 1 << 32, 1<<53 - 1, 1 << 53}[c.rng.Intn(10)]
	case 1:
		return uint64(c.rng.Int63n(1 << 53))
	}
	return uint64(c.rng.Int63n(1 << uint(1+c.rng.Intn(40))))
}

func (g *wasmGen) genHOTP(tag string, probe bool) {
	c := g.c
	k, sec := g.key()
	ctr := g.num53()
	d, a := wasmDigits[c.rng.Intn(len(wasmDigits))], wasmAlgs[c.rng.Intn(len(wasmAlgs))]
	arg := jNum(ctr)
	if c.rng.Intn(8) == 0 && ctr < 1<<40 { // fractions are exactly representable only well below 2^53
		arg = jFrac(ctr, []string{"5", "75", "25"}[c.rng.Intn(3)])
	}
	g.add(tag, "generateHOTP", "wellformed", probe, []JArg{jStr(sec), arg, jStr(d), jStr(a)}, func(e *wasmEvent) { e.Orc = allAlgWindow(k, ctr, 0) })
}

func (g *wasmGen) genTOTP(tag string, probe bool) {
	c := g.c
	k, sec := g.key()
	ts := g.num53()
	per := uint64(1 + c.rng.Intn(3600))
	if c.rng.Intn(3) == 0 {
		per = []uint64{1, 30, 60, 3600}[c.rng.Intn(4)]
	}
	d, a := wasmDigits[c.rng.Intn(len(wasmDigits))], wasmAlgs[c.rng.Intn(len(wasmAlgs))]
	g.add(tag, "generateTOTP", "wellformed", probe, []JArg{jStr(sec), jNum(ts), jStr(d), jStr(a), jNum(per)}, func(e *wasmEvent) {
		e.Step0 = W64(ts / per)
		e.Orc = allAlgWindow(k, ts/per, 0)
	})
}

func (g *wasmGen) valHOTP(tag string, probe bool) {
	c := g.c
	k, sec := g.key()
	ctr := g.num53()
	if c.rng.Intn(4) == 0 {
		ctr = uint64(c.rng.Intn(12)) // windows reaching below zero
	}
	s := uint64(c.rng.Intn(11))
	d, a := wasmDigits[c.rng.Intn(len(wasmDigits))], wasmAlgs[c.rng.Intn(len(wasmAlgs))]
	dist := c.rng.Intn(2*int(s)+5) - int(s) - 2
	code := refHOTP(k, ctr+uint64(int64(dist)), int(otp.DigitsFromStr(d)), int(otp.AlgorithmFromStr(a)))
	if c.rng.Intn(6) == 0 {
		code = c.edit(code, []string{"flip", "fliplast", "droplast", "append0", "leadplus", "double"}[c.rng.Intn(6)])
	}
	if code == "" {
		code = "0"
	}
	g.add(tag, "validateHOTP", "wellformed", probe, []JArg{jStr(sec), jStr(code), jNum(ctr), jStr(d), jStr(a), jNum(s)}, func(e *wasmEvent) {
		e.Orc = allAlgWindow(k, ctr, int(s)+margin)
	})
}

func (g *wasmGen) valTOTP(tag string, probe bool) {
	c := g.c
	k, sec := g.key()
	per := uint64(1 + c.rng.Intn(3600))
	if c.rng.Intn(3) == 0 {
		per = []uint64{30, 30, 1, 2, 60, 3599, 3600}[c.rng.Intn(7)] // incl. both ends of the period range
	}
	s := uint64(c.rng.Intn(11))
	ts := g.num53()
	if ts/per < s+3 {
		ts = (s + 3 + uint64(c.rng.Intn(1000))) * per
	}
	d, a := wasmDigits[c.rng.Intn(len(wasmDigits))], wasmAlgs[c.rng.Intn(len(wasmAlgs))]
	dist := c.rng.Intn(2*int(s)+5) - int(s) - 2
	code := refHOTP(k, ts/per+uint64(int64(dist)), int(otp.DigitsFromStr(d)), int(otp.AlgorithmFromStr(a)))
	if c.rng.Intn(6) == 0 {
		code = c.edit(code, []string{"flip", "fliplast", "droplast", "append0", "leadplus", "double"}[c.rng.Intn(6)])
	}
	if code == "" {
		code = "0"
	}
	g.add(tag, "validateTOTP", "wellformed", probe, []JArg{jStr(sec), jStr(code), jNum(ts), jStr(d), jStr(a), jNum(s), jNum(per)}, func(e *wasmEvent) {
		e.Step0 = W64(ts / per)
		e.Orc = allAlgWindow(k, ts/per, int(s)+margin)
	})
}

func (g *wasmGen) genURL(tag string, probe bool) {
	c := g.c
	typ := []string{"totp", "hotp", "totp", "hotp", "TOTP", "x"}[c.rng.Intn(6)]
	iss := strings.ReplaceAll(restTexts[c.rng.Intn(len(restTexts))], ":", ";")
	g.add(tag, "generateOTPURL", "wellformed", probe, []JArg{jStr(typ), jStr(iss), jStr(restTexts[c.rng.Intn(len(restTexts))]), jStr(b32np(c.randBytes(10))),
		jStr(wasmDigits[c.rng.Intn(len(wasmDigits))]), jStr(wasmAlgs[c.rng.Intn(len(wasmAlgs))])}, nil)
}

func (g *wasmGen) randomGood(tag string, probe bool) {
	switch g.c.rng.Intn(9) {
	case 0, 1:
		g.genHOTP(tag, probe)
	case 2, 3:
		g.genTOTP(tag, probe)
	case 4, 5:
		g.valHOTP(tag, probe)
	case 6, 7:
		g.valTOTP(tag, probe)
	default:
		g.genURL(tag, probe)
	}
}

var fnArity = map[string]int{"generateHOTP": 4, "generateTOTP": 5, "validateHOTP": 6, "validateTOTP": 7, "generateOTPURL": 6}
var fnNames = []string{"generateHOTP", "generateTOTP", "validateHOTP", "validateTOTP", "generateOTPURL"}

func (g *wasmGen) goodArgs(fn string) []JArg {
	n := len(g.evs)
	switch fn {
	case "generateHOTP":
		g.genHOTP("tmp", false)
	case "generateTOTP":
		g.genTOTP("tmp", false)
	case "validateHOTP":
		g.valHOTP("tmp", false)
	case "validateTOTP":
		g.valTOTP("tmp", false)
	default:
		g.genURL("tmp", false)
	}
	a := g.evs[n].Args
	g.evs = g.evs[:n]
	return a
}

func wasmScenarios(c *ctx) []wasmEvent {
	g := &wasmGen{c: c}
	// the common domain
	for i := 0; i < c.n(400, 12000); i++ {
		g.randomGood(fmt.Sprintf("C20/good/%d", i), false)
	}
	// windows at every distance -(s+2)..(s+2)
	for _, s := range []uint64{0, 1, 2, 5, 10} {
		k, sec := g.key()
		for _, ctr := range []uint64{0, 1, 3, 12, 1 << 32, 1<<53 - 20} {
			for dist := -int(s) - 2; dist <= int(s)+2; dist++ {
				if int64(ctr)+int64(dist) < 0 {
					continue
				}
				if c.quick() && s > 2 && dist%2 != 0 {
					continue
				}
				code := refHOTP(k, ctr+uint64(int64(dist)), 6, 0)
				kk, cc, ss := k, ctr, s
				g.add(fmt.Sprintf("C20/winh/s%d/c%d/d%+d", s, ctr, dist), "validateHOTP", "wellformed", false,
					[]JArg{jStr(sec), jStr(code), jNum(ctr), jStr("6"), jStr("SHA1"), jNum(s)}, func(e *wasmEvent) { e.Orc = allAlgWindow(kk, cc, int(ss)+margin) })
				ts := (ctr + 20) * 30
				code2 := refHOTP(k, ts/30+uint64(int64(dist)), 8, 1)
				g.add(fmt.Sprintf("C20/wint/s%d/c%d/d%+d", s, ctr, dist), "validateTOTP", "wellformed", false,
					[]JArg{jStr(sec), jStr(code2), jNum(ts), jStr("8"), jStr("SHA256"), jNum(s), jNum(30)}, func(e *wasmEvent) {
						e.Step0 = W64(ts / 30)
						e.Orc = allAlgWindow(kk, ts/30, int(ss)+margin)
					})
			}
		}
	}
	// TOTP windows that reach below step 0: the property's reference there is the native library itself (its
	// unsigned window wraps around), so the native verdict of the same tree is recorded next to the binding's
	for _, sk := range []uint64{1, 2, 5, 10} {
		k, sec := g.key()
		for _, step := range []uint64{0, 1, sk - 1} {
			for _, back := range []uint64{0, 1, sk, sk + 1} {
				ts := step*30 + uint64(c.rng.Intn(30))
				target := step - back // wraps for back > step
				code := refHOTP(k, target, 6, 0)
				nat, _ := otp.ValidateTOTP(sec, code, time.Unix(int64(ts), 0), &otp.Param{Digits: 6, Algorithm: otp.SHA1, Skew: uint(sk), Period: 30})
				kk, st, ss := k, step, sk
				g.add(fmt.Sprintf("C20/wrap/s%d/n%d/b%d", sk, step, back), "validateTOTP", "wellformed", false,
					[]JArg{jStr(sec), jStr(code), jNum(ts), jStr("6"), jStr("SHA1"), jNum(sk), jNum(30)}, func(e *wasmEvent) {
						e.Step0 = W64(st)
						e.Nat = JRet{T: "boolean", S: B{}, Bo: nat}
						e.Orc = allAlgWindow(kk, st, int(ss)+margin)
					})
			}
		}
	}
	// codes with five to seven leading zeros (see zeroRich), through generation and validation
	for i, z := range zeroRich {
		if z.D == 7 {
			continue // not a spelling the binding knows
		}
		d, a := fmt.Sprint(z.D), []string{"SHA1", "SHA256", "SHA512"}[z.Alg]
		zc := z.Ctr
		g.add(fmt.Sprintf("C20/zeros/gh/%d", i), "generateHOTP", "wellformed", false, []JArg{jStr(b32(zeroRichKey)), jNum(zc), jStr(d), jStr(a)},
			func(e *wasmEvent) { e.Orc = allAlgWindow(zeroRichKey, zc, 0) })
		ts := zc*30 + uint64(i%30)
		g.add(fmt.Sprintf("C20/zeros/gt/%d", i), "generateTOTP", "wellformed", false, []JArg{jStr(b32(zeroRichKey)), jNum(ts), jStr(d), jStr(a), jNum(30)},
			func(e *wasmEvent) {
				e.Step0 = W64(zc)
				e.Orc = allAlgWindow(zeroRichKey, zc, 0)
			})
		g.add(fmt.Sprintf("C20/zeros/vh/%d", i), "validateHOTP", "wellformed", false,
			[]JArg{jStr(b32(zeroRichKey)), jStr(refHOTP(zeroRichKey, zc, z.D, z.Alg)), jNum(zc), jStr(d), jStr(a), jNum(1)},
			func(e *wasmEvent) { e.Orc = allAlgWindow(zeroRichKey, zc, 1+margin) })
	}
	// provisioning URLs: the full grid type x hash x digits, and issuers / accounts with non-ASCII text
	for _, typ := range []string{"totp", "hotp"} {
		for _, a := range []string{"SHA1", "SHA256", "SHA512"} {
			for _, d := range []string{"6", "8", "9", "10"} {
				iss := []string{"Example", "Exämple Ünï", "日本 株式会社", "a b+c"}[(len(a)+len(d))%4]
				g.add(fmt.Sprintf("C20/urlgrid/%s/%s/%s", typ, a, d), "generateOTPURL", "wellformed", false,
					[]JArg{jStr(typ), jStr(iss), jStr("alice@exämple.com"), jStr(b32np(c.randBytes(10))), jStr(d), jStr(a)}, nil)
			}
		}
	}
	// instants at step boundaries (remainder 0, 1, period-1) for several periods, through generation and validation
	for _, per := range []uint64{1, 2, 30, 60, 3599, 3600} {
		k, sec := g.key()
		for _, step := range []uint64{0, 1, 12, 1 << 20} {
			for _, rem := range []uint64{0, 1, per - 1} {
				if rem >= per {
					continue
				}
				ts, st, kk, pp := step*per+rem, step, k, per
				g.add(fmt.Sprintf("C20/stepb/g/p%d/n%d/r%d", per, step, rem), "generateTOTP", "wellformed", false,
					[]JArg{jStr(sec), jNum(ts), jStr("6"), jStr("SHA1"), jNum(pp)}, func(e *wasmEvent) {
						e.Step0 = W64(st)
						e.Orc = allAlgWindow(kk, st, 0)
					})
				g.add(fmt.Sprintf("C20/stepb/v/p%d/n%d/r%d", per, step, rem), "validateTOTP", "wellformed", false,
					[]JArg{jStr(sec), jStr(refHOTP(kk, st, 6, 0)), jNum(ts), jStr("6"), jStr("SHA1"), jNum(0), jNum(pp)}, func(e *wasmEvent) {
						e.Step0 = W64(st)
						e.Orc = allAlgWindow(kk, st, margin)
					})
			}
		}
	}
	// fractional instants are truncated, not rounded: .5 and .75 in the last second of a step
	for _, per := range []uint64{1, 30, 60} {
		k, sec := g.key()
		for _, step := range []uint64{3, 1 << 20} {
			for _, fr := range []string{"5", "75", "25"} {
				base, st, kk, pp := step*per+per-1, step, k, per
				g.add(fmt.Sprintf("C20/frac/g/p%d/n%d/f%s", per, step, fr), "generateTOTP", "wellformed", false,
					[]JArg{jStr(sec), jFrac(base, fr), jStr("6"), jStr("SHA1"), jNum(pp)}, func(e *wasmEvent) {
						e.Step0 = W64(st)
						e.Orc = allAlgWindow(kk, st, 0)
					})
				g.add(fmt.Sprintf("C20/frac/v/p%d/n%d/f%s", per, step, fr), "validateTOTP", "wellformed", false,
					[]JArg{jStr(sec), jStr(refHOTP(kk, st, 6, 0)), jFrac(base, fr), jStr("6"), jStr("SHA1"), jNum(0), jNum(pp)}, func(e *wasmEvent) {
						e.Step0 = W64(st)
						e.Orc = allAlgWindow(kk, st, margin)
					})
			}
		}
	}
	// the same submission with a shrinking and growing window, back to back: each call is judged on its own skew
	for i := 0; i < c.n(6, 60); i++ {
		k, sec := g.key()
		ctr := uint64(50 + c.rng.Intn(1<<20))
		dist := uint64(1 + i%4)
		codeH := refHOTP(k, ctr+dist, 6, 0)
		ts := (ctr + 40) * 30
		codeT := refHOTP(k, ts/30+dist, 8, 1)
		for j, sk := range []uint64{10, dist, dist - 1, 0, dist, 10, dist - 1} {
			kk, cc, ss, tt := k, ctr, sk, ts
			g.add(fmt.Sprintf("C20/sibskew/h/%d/%d", i, j), "validateHOTP", "wellformed", false,
				[]JArg{jStr(sec), jStr(codeH), jNum(ctr), jStr("6"), jStr("SHA1"), jNum(sk)}, func(e *wasmEvent) { e.Orc = allAlgWindow(kk, cc, int(ss)+margin) })
			g.add(fmt.Sprintf("C20/sibskew/t/%d/%d", i, j), "validateTOTP", "wellformed", false,
				[]JArg{jStr(sec), jStr(codeT), jNum(ts), jStr("8"), jStr("SHA256"), jNum(sk), jNum(30)}, func(e *wasmEvent) {
					e.Step0 = W64(tt / 30)
					e.Orc = allAlgWindow(kk, tt/30, int(ss)+margin)
				})
		}
	}
	// malformed calls: every argument position x every JS type, too few / too many arguments; each followed by a probe
	bads := []JArg{jOther("undefined"), jOther("null"), jOther("nan"), jNeg("-1"), jNeg("-7"), jHuge("1e300"), jOther("inf"), jOther("boolean"), jOther("object"), jOther("array"), jStr(""), jOther("function")}
	id := 0
	for _, fn := range fnNames {
		for pos := 0; pos < fnArity[fn]; pos++ {
			for _, b := range bads {
				good := g.goodArgs(fn)
				isNumPos := good[pos].T == "number"
				if b.T == "string" && b.S != nil && len(b.S) == 0 && isNumPos {
					// an empty string at a number position is a wrong type as well
				}
				if !isNumPos && (b.T == "nan" || b.T == "huge" || b.T == "inf" || b.Neg) {
					// a number at a string position: wrong type
					b = jNum(5)
				}
				args := append([]JArg{}, good...)
				args[pos] = b
				id++
				g.add(fmt.Sprintf("C20/bad/%s/%d/%s/%d", fn, pos, b.T, id), fn, "malformed", false, args, nil)
				if id%3 == 0 {
					g.randomGood(fmt.Sprintf("C20/probe/%d", id), true)
				}
			}
		}
		// text that looks like a number is still not a number
		for pos := 0; pos < fnArity[fn]; pos++ {
			if g.goodArgs(fn)[pos].T != "number" {
				continue
			}
			for _, txt := range []string{"5", "0", "30", "1e3", " 7", "0x10"} {
				args := g.goodArgs(fn)
				args[pos] = jStr(txt)
				id++
				g.add(fmt.Sprintf("C20/bad/%s/%d/numtext/%d", fn, pos, id), fn, "malformed", false, args, nil)
			}
		}
		for _, n := range []int{0, 1, fnArity[fn] - 1, fnArity[fn] + 1, fnArity[fn] + 3} {
			good := g.goodArgs(fn)
			var args []JArg
			for i := 0; i < n; i++ {
				if i < len(good) {
					args = append(args, good[i])
				} else {
					args = append(args, jStr("extra"))
				}
			}
			if args == nil {
				args = []JArg{}
			}
			id++
			g.add(fmt.Sprintf("C20/arity/%s/%d", fn, n), fn, "malformed", false, args, nil)
			g.randomGood(fmt.Sprintf("C20/probe/%d", id), true)
		}
	}
	// range errors: skew above 10, period outside 1..3600
	for _, sk := range []uint64{11, 12, 100, 1 << 40} {
		a := g.goodArgs("validateHOTP")
		a[5] = jNum(sk)
		g.add(fmt.Sprintf("C20/range/skewh/%d", sk), "validateHOTP", "malformed", false, a, nil)
		b := g.goodArgs("validateTOTP")
		b[5] = jNum(sk)
		g.add(fmt.Sprintf("C20/range/skewt/%d", sk), "validateTOTP", "malformed", false, b, nil)
	}
	for _, per := range []uint64{0, 3601, 1 << 40} {
		a := g.goodArgs("generateTOTP")
		a[4] = jNum(per)
		g.add(fmt.Sprintf("C20/range/perg/%d", per), "generateTOTP", "malformed", false, a, nil)
	}
	b := g.goodArgs("validateTOTP")
	b[6] = jNum(0)
	g.add("C20/range/perv/0", "validateTOTP", "malformed", false, b, nil)
	for i := 0; i < 10; i++ {
		g.randomGood(fmt.Sprintf("C20/probe/end%d", i), true)
	}
	for i := range g.evs {
		g.evs[i].ID = i + 1
	}
	return g.evs
}

func cmdWasm(args []string) {
	fs := flag.NewFlagSet("wasm", flag.ExitOnError)
	tier := fs.String("tier", "quick", "")
	seed := fs.Int64("seed", 1, "")
	out := fs.String("out", "", "output directory")
	gdir := fs.String("global-dir", "", "directory with wasm_exec.js and otp.wasm")
	pdir := fs.String("package-dir", "", "scratch copy of otp-js with the fresh lib/otp.wasm")
	driver := fs.String("driver", "", "path of driver.js")
	only := fs.String("only", "", "")
	fs.Parse(args)
	c := &ctx{rng: rand.New(rand.NewSource(*seed)), tier: *tier, seed: *seed, rec: NewRecorder(*out, "unused", 1<<30)}
	evs := wasmScenarios(c)
	scFile := filepath.Join(*out, "scenarios.ndjson")
	f, _ := os.Create(scFile)
	w := bufio.NewWriter(f)
	for _, e := range evs {
		data, _ := json.Marshal(map[string]any{"id": e.ID, "fn": e.Fn, "args": e.Args})
		w.Write(data)
		w.WriteByte('\n')
	}
	w.Flush()
	f.Close()
	onlySet := map[string]bool{}
	if *only != "" {
		for _, k := range strings.Split(*only, "\x1f") {
			onlySet[k] = true
		}
	}
	var files []string
	total := 0
	var samples []wasmEvent
	for _, via := range []string{"global", "package"} {
		dir := *gdir
		if via == "package" {
			dir = *pdir
		}
		res := filepath.Join(*out, "node-"+via+".ndjson")
		os.Remove(res)
		// A call into the module that never returns blocks the whole Node process. The driver writes one line per
		// finished call; when the file stops growing the process is killed, the call in progress is recorded as a
		// hang and a fresh process resumes with the next call (at most four times; what follows stays unanswered).
		hung := map[int]bool{}
		start := 0
		for {
			cmd := exec.Command("node", *driver, via, dir, scFile, res, fmt.Sprint(start))
			childDiesWithUs(cmd)
			var outb bytes.Buffer
			cmd.Stdout, cmd.Stderr = &outb, &outb
			if err := cmd.Start(); err != nil {
				fmt.Fprintf(os.Stderr, "node driver (%s) did not start: %v\n", via, err)
				os.Exit(3)
			}
			done := make(chan error, 1)
			go func() { done <- cmd.Wait() }()
			var err error
			killed := false
			lastSize, lastChange := int64(-1), time.Now()
			wrote := false // generous until this process has answered its first call (start-up on a loaded machine)
			var size0 int64 = -1
		wait:
			for {
				select {
				case err = <-done:
					break wait
				case <-time.After(500 * time.Millisecond):
					var sz int64
					if st, e := os.Stat(res); e == nil {
						sz = st.Size()
					}
					if size0 < 0 {
						size0 = sz
					}
					if sz > size0 {
						wrote = true
					}
					limit := 60 * time.Second
					if start > 0 {
						limit = 20 * time.Second // a resumed process: the first one has shown that the module loads
					}
					if wrote {
						limit = 12 * time.Second
					}
					if sz != lastSize {
						lastSize, lastChange = sz, time.Now()
					} else if time.Since(lastChange) > limit {
						cmd.Process.Kill()
						<-done
						killed = true
						break wait
					}
				}
			}
			if !killed {
				if err != nil {
					fmt.Fprintf(os.Stderr, "node driver (%s) failed: %v\n%s\n", via, err, outb.String())
					os.Exit(3)
				}
				break
			}
			// lines written so far = calls finished since the file was started: the next one is the one that hangs
			nDone := 0
			if data, e := os.ReadFile(res); e == nil {
				nDone = bytes.Count(data, []byte("\n"))
			}
			idx := nDone + len(hung) // hung calls wrote no line
			if idx >= len(evs) || len(hung) >= 4 {
				break
			}
			hung[evs[idx].ID] = true
			start = idx + 1
			if start >= len(evs) {
				break
			}
		}
		rets := map[int]JRet{}
		for id := range hung {
			rets[id] = JRet{T: "hang", S: B{}}
		}
		rf, _ := os.Open(res)
		sc := bufio.NewScanner(rf)
		sc.Buffer(make([]byte, 1<<20), 1<<24)
		for sc.Scan() {
			var r struct {
				ID  int  `json:"id"`
				Ret JRet `json:"ret"`
			}
			if json.Unmarshal(sc.Bytes(), &r) == nil {
				if r.Ret.S == nil {
					r.Ret.S = B{}
				}
				rets[r.ID] = r.Ret
			}
		}
		rf.Close()
		name := filepath.Join(*out, "wasm-"+via+".ndjson")
		tf, _ := os.Create(name)
		tw := bufio.NewWriter(tf)
		n := 0
		for _, e := range evs {
			if len(onlySet) > 0 && !onlySet[e.Scn] {
				continue
			}
			e.Via = via
			if r, ok := rets[e.ID]; ok {
				e.Ret = r
			}
			if e.Fn == "generateOTPURL" && e.Ret.T == "string" {
				if pu, err := url.Parse(string(e.Ret.S)); err == nil && pu.Scheme == "otpauth" {
					e.Up["host"] = S(pu.Host)
					if p, err := otp.ParseOTPAuthURL(pu); err == nil && p != nil {
						e.Up = map[string]any{"ok": true, "issuer": S(p.Issuer), "account": S(p.AccountName), "secret": S(p.Secret), "digits": int(p.Digits),
							"alg": int(p.Algorithm), "period": W64(uint64(p.Period)), "host": S(pu.Host)}
					}
				}
			}
			n++
			e.ID = n
			data, _ := json.Marshal(e)
			tw.Write(data)
			tw.WriteByte('\n')
			if len(samples) < 4 && n%53 == 1 {
				samples = append(samples, e)
			}
		}
		tw.Flush()
		tf.Close()
		files = append(files, name)
		total += n
	}
	sum := map[string]any{"events": total, "files": files, "samples": samples}
	data, _ := json.MarshalIndent(sum, "", " ")
	os.WriteFile(filepath.Join(*out, "gen.json"), data, 0o644)
	fmt.Printf("wasm: %d calls recorded (global + package)\n", total)
}

func init() { extraCmds["wasm"] = cmdWasm }
