package main

// placeholders until the OCRA scenarios exist
func (c *ctx) ocraSpellingGroups(i int, key []byte, sp []string, group func(mk func(s string, k int) Event)) {
}
func (c *ctx) ocraC13(i int, key []byte, secret string) {}
