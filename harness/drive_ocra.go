package main

import (
	"sort"
	"strings"

	"github.com/ja7ad/otp"
)

// Cfg mirrors otp.SuiteConfig for the trace (ints must fit TLC's 32-bit integers).
type Cfg struct {
	Raw    B    `json:"raw"`
	Hash   int  `json:"hash"`
	Digits int  `json:"digits"`
	Chal   int  `json:"chal"`
	C      bool `json:"c"`
	Q      bool `json:"q"`
	P      bool `json:"p"`
	S      bool `json:"s"`
	T      bool `json:"t"`
	PH     int  `json:"ph"`
	TS     int  `json:"ts"`
}

func clamp32(v int) int {
	if v > 1<<30 {
		return 1 << 30
	}
	if v < -(1 << 30) {
		return -(1 << 30)
	}
	return v
}

func cfgOf(c otp.SuiteConfig) Cfg {
	return Cfg{Raw: S(c.Raw), Hash: int(c.Hash), Digits: clamp32(c.Digits), Chal: clamp32(int(c.Challenge)), C: c.IncludeCounter,
		Q: c.IncludeChallenge, P: c.IncludePassword, S: c.IncludeSession, T: c.IncludeTimestamp, PH: clamp32(int(c.PasswordHash)), TS: clamp32(c.TimeStep)}
}

func (c Cfg) lib() otp.SuiteConfig {
	return otp.SuiteConfig{Raw: string(c.Raw), Hash: otp.Algorithm(c.Hash), Digits: c.Digits, Challenge: otp.ChallengeFormat(c.Chal),
		IncludeCounter: c.C, IncludeChallenge: c.Q, IncludePassword: c.P, IncludeSession: c.S, IncludeTimestamp: c.T,
		PasswordHash: otp.PasswordHashAlgorithm(c.PH), TimeStep: c.TS}
}

type Su struct {
	Kind string `json:"kind"` // raw | cfg
	Name B      `json:"name"`
	Cfg  Cfg    `json:"cfg"`
}

type In struct {
	Counter   B `json:"counter"`
	Challenge B `json:"challenge"`
	Password  B `json:"password"`
	Session   B `json:"session"`
	Timestamp B `json:"timestamp"`
}

func nz(b []byte) B {
	if b == nil {
		return B{}
	}
	return B(b)
}

func inOf(i otp.OCRAInput) In {
	return In{nz(i.Counter), nz(i.Challenge), nz(i.Password), nz(i.SessionInfo), nz(i.Timestamp)}
}

// suiteArg is a Suite value together with its description for the trace.
type suiteArg struct {
	s  otp.Suite
	su Su
}

func rawSuiteArg(name string) (suiteArg, error) {
	s, err := otp.NewRawSuite(name)
	if err != nil {
		return suiteArg{}, err
	}
	return suiteArg{s: s, su: Su{Kind: "raw", Name: S(name), Cfg: cfgOf(s.Config())}}, nil
}

func cfgSuiteArg(c Cfg) suiteArg {
	return suiteArg{s: c.lib(), su: Su{Kind: "cfg", Name: B{}, Cfg: c}}
}

// harness' own belief of the message (used only to pre-compute oracle entries)
func padR(b []byte, n int) []byte {
	out := make([]byte, n)
	copy(out, b)
	return out
}

func beliefMsg(c Cfg, in otp.OCRAInput) []byte {
	m := append([]byte{}, c.Raw...)
	m = append(m, 0)
	if c.C {
		m = append(m, padR(in.Counter, 8)...)
	}
	if c.Q {
		m = append(m, padR(in.Challenge, 128)...)
	}
	if c.P {
		m = append(m, in.Password...)
	}
	if c.S {
		m = append(m, padR(in.SessionInfo, 128)...)
	}
	if c.T {
		m = append(m, padR(in.Timestamp, 8)...)
	}
	return m
}

// readName is the harness' own reading of a suite name (belief only; the verdict is the specification's).
func readName(name string) (Cfg, bool) {
	parts := strings.Split(name, ":")
	if len(parts) != 3 || parts[0] != "OCRA-1" {
		return Cfg{}, false
	}
	cr := strings.Split(parts[1], "-")
	if len(cr) != 3 || cr[0] != "HOTP" {
		return Cfg{}, false
	}
	c := Cfg{Raw: S(name)}
	switch cr[1] {
	case "SHA1":
		c.Hash = 0
	case "SHA256":
		c.Hash = 1
	case "SHA512":
		c.Hash = 2
	default:
		return Cfg{}, false
	}
	d := 0
	for _, ch := range cr[2] {
		if ch < '0' || ch > '9' || d > 1000 {
			return Cfg{}, false
		}
		d = d*10 + int(ch-'0')
	}
	c.Digits = d
	for _, t := range strings.Split(parts[2], "-") {
		switch {
		case t == "C":
			c.C = true
		case len(t) == 4 && t[0] == 'Q':
			c.Q = true
			base := map[byte]int{'N': 1, 'A': 3, 'H': 5}[t[1]]
			if t[2:] == "10" {
				base++
			}
			c.Chal = base
		case strings.HasPrefix(t, "PSHA"):
			c.P = true
			c.PH = map[string]int{"PSHA1": 1, "PSHA256": 2, "PSHA512": 3}[t]
		case strings.HasPrefix(t, "S"):
			c.S = true
		case strings.HasPrefix(t, "T"):
			c.T = true
			c.TS = 1
		}
	}
	return c, true
}

func ocraOracle(secret string, sa suiteArg, in otp.OCRAInput) []Mac {
	var o orcSet
	key, ok := lenientKey(secret)
	if !ok {
		return o.entries()
	}
	cfgs := []Cfg{sa.su.Cfg}
	if sa.su.Kind == "raw" {
		c := sa.su.Cfg
		c.Raw = sa.su.Name
		cfgs = []Cfg{c}
		if r, ok := readName(string(sa.su.Name)); ok {
			cfgs = append(cfgs, r)
		}
	}
	for _, c := range cfgs {
		m := beliefMsg(c, in)
		for a := 0; a < 3; a++ {
			if a == c.Hash || sa.su.Kind == "raw" {
				o.add(a, key, m)
			}
		}
	}
	return o.entries()
}

func doGenerateOCRA(scn, secret string, sa suiteArg, in otp.OCRAInput) Event {
	e := newEvent("GenerateOCRA", scn)
	e.Secret = S(secret)
	e.X = map[string]any{"su": sa.su, "in": inOf(in)}
	e.Orc = ocraOracle(secret, sa, in)
	invoke(&e, func() result {
		s, err := otp.GenerateOCRA(secret, sa.s, in)
		return result{val: []byte(s), err: err, ret: s}
	})
	return e
}

func doValidateOCRA(scn, secret, code string, sa suiteArg, in otp.OCRAInput) Event {
	e := newEvent("ValidateOCRA", scn)
	e.Secret, e.Code = S(secret), S(code)
	e.X = map[string]any{"su": sa.su, "in": inOf(in)}
	e.Orc = ocraOracle(secret, sa, in)
	invoke(&e, func() result {
		ok, err := otp.ValidateOCRA(secret, code, sa.s, in)
		return result{ok: ok, err: err}
	})
	return e
}

func doInputValidate(scn string, c Cfg, in otp.OCRAInput) Event {
	e := newEvent("InputValidate", scn)
	e.X = map[string]any{"cfg": c, "in": inOf(in)}
	invoke(&e, func() result { return result{err: in.Validate(c.lib())} })
	return e
}

func doSuiteValidate(scn string, c Cfg, via int) Event {
	e := newEvent("SuiteValidate", scn)
	e.X = map[string]any{"cfg": c}
	invoke(&e, func() result {
		switch via {
		case 1:
			return result{err: otp.RawSuite{SuiteConfig: c.lib()}.Validate()}
		case 2:
			s, err := otp.NewSuite(c.lib())
			if err == nil && s != nil {
				return result{y: map[string]any{"cfg": cfgOf(s.Config())}}
			}
			return result{err: err}
		}
		return result{err: c.lib().Validate()}
	})
	if via == 2 {
		e.Op = "NewSuite"
	}
	return e
}

func doNewRawSuite(scn, name string, inlist bool) Event {
	e := newEvent("NewRawSuite", scn)
	e.X = map[string]any{"name": S(name)}
	zero := cfgOf(otp.SuiteConfig{})
	e.Y = map[string]any{"cfg": zero, "str": B{}, "known": false, "inlist": inlist, "fromraws": zero, "mustok": false, "mustcfg": zero}
	invoke(&e, func() result {
		y := map[string]any{"cfg": zero, "str": B{}, "known": otp.IsKnownSuite(name), "inlist": inlist, "fromraws": cfgOf(otp.SuiteConfigFromRaws(name)),
			"mustok": false, "mustcfg": zero}
		if !inlist { // callers that do not know: ask the list itself
			for _, n := range otp.ListSuites() {
				if n == name {
					y["inlist"] = true
				}
			}
		}
		s, err := otp.NewRawSuite(name)
		if err == nil && s != nil {
			y["cfg"] = cfgOf(s.Config())
			y["str"] = S(s.String())
		}
		// the panicking twin of the constructor (documented: panics exactly where NewRawSuite fails)
		func() {
			defer func() { recover() }()
			ms := otp.MustRawSuite(name)
			y["mustok"], y["mustcfg"] = true, cfgOf(ms.Config())
		}()
		return result{err: err, y: y}
	})
	return e
}

func listSuites() []string {
	l := otp.ListSuites()
	sort.Strings(l)
	return l
}
