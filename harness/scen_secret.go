package main

import (
	"fmt"
	"strings"
	"time"
)

// ---------------- C07 ----------------
func scenC07(c *ctx) {
	maxLen := 256
	// every length (every padding amount), every spelling family -> DecodeSecret
	for n := 0; n <= maxLen; n++ {
		if c.quick() && n > 45 && n%7 != 0 && n < 250 {
			continue
		}
		for rep := 0; rep < c.n(1, 3); rep++ {
			var key []byte
			switch rep {
			case 0:
				key = c.randBytes(n)
			case 1:
				key = make([]byte, n)
			default:
				key = make([]byte, n)
				for i := range key {
					key[i] = 0xFF
				}
			}
			for si, s := range c.spellings(key, 12) {
				c.rec.Emit(doDecodeSecret(fmt.Sprintf("C07/len%d/r%d/sp%d", n, rep, si), s))
			}
		}
	}
	// invalid classes
	base := b32np(c.randBytes(20)) // 32 characters, no padding
	id := 0
	// after every refused text, short unpadded spellings of known keys: whatever the refused call left behind
	// (a reused normalisation buffer, say) must not change how the next, shorter text is read
	probes := []string{"MY", "MZXQ", "MZXW6", "mzxw6yq", "MZXW6YTBOI", "me", "MFRGG", "mfrggza", "GEZDGNBVGY3TQOI"}
	bad := func(tag, s string) {
		id++
		c.rec.Emit(doDecodeSecret(fmt.Sprintf("C07/bad/%s/%d", tag, id), s))
		n := 2
		if strings.HasPrefix(tag, "nonascii") || strings.HasPrefix(tag, "midpad") || strings.HasPrefix(tag, "digitws") {
			n = len(probes)
		}
		for k := 0; k < n; k++ {
			c.rec.Emit(doDecodeSecret(fmt.Sprintf("C07/bad/%s/%d/probe%d", tag, id, k), probes[(id+k)%len(probes)]))
		}
	}
	for ch := 0; ch < 128; ch++ {
		isAlpha := (ch >= 'A' && ch <= 'Z') || (ch >= 'a' && ch <= 'z') || (ch >= '2' && ch <= '7') || ch == '='
		isWS := ch == ' ' || ch == '\t' || ch == '\n' || ch == '\r' || ch == 11 || ch == 12
		if isAlpha {
			continue
		}
		// in the middle: always outside the alphabet
		bad(fmt.Sprintf("mid%d", ch), base[:9]+string(rune(ch))+base[10:])
		if !isWS {
			bad(fmt.Sprintf("first%d", ch), string(rune(ch))+base[1:])
			bad(fmt.Sprintf("last%d", ch), base[:31]+string(rune(ch)))
		}
	}
	for _, n := range []int{1, 3, 6, 9, 11, 14, 17, 19, 22, 33, 35, 38} {
		bad(fmt.Sprintf("len%d", n), strings.Repeat("A", n))
		bad(fmt.Sprintf("len%dl", n), strings.ToLower(base + base)[:n])
		bad(fmt.Sprintf("len%dp", n), (base + base)[:n]+"=")
	}
	for _, s := range []string{"AB=CD", "MZXW6===YTBOI===", "MY======MY======", "A=AAAAAA", "MZ=XW6YTB", "=MZXW6YTB", "MZXW6YTB=A"} {
		bad("midpad", s)
	}
	// non-ASCII letters whose case mapping lands in the alphabet (U+017F, U+0131, U+212A), digits, look-alikes
	// byte counts chosen so that the text is a well-formed base32 length AFTER a Unicode case mapping has
	// shortened it (8 two-byte letters + 8 ASCII letters = 24 bytes, 16 characters)
	for _, s := range []string{"AAAAſſſſſſſſAAAA", "MZXWııııııııMZXW", "AAAAſſſſſſſſAAAA========", "aaaaſſſſſſſſaaaa", "A" + strings.Repeat("ſ", 8) + "AAAAAAA", "AſAAAAAA", "AAAAſAAA", "MZXW6YTſA", "AıAAAAAA", "AKAAAAAA", "ſAAAAAAA"[0:0] + "AAſA", "AAAAéAAA", "AAAA\xffAAA", "AΑAAAAAA", "MZXW​6YTB", "M ZXW6YTB"} {
		bad("nonascii", s)
	}
	for _, s := range []string{"0AAAAAAA", "1AAAAAAA", "AAAA8AAA", "AAAAAAA9", "AAAA AAA", "AAAA\tAAA", "AAAA\nAAAA", "AAAA-AAAA"} {
		bad("digitws", s)
	}
	// unspecified region (either outcome is accepted): recorded to show the region is not judged
	for _, s := range []string{"MZ", "MY=======", "====", "\vMY", "MY\f", " MY", "MY "} {
		bad("unspec", s)
	}

	// the same key on every entry point, whatever the spelling
	for i := 0; i < c.n(25, 400); i++ {
		key := c.someKey()
		if i < len(keyLens) {
			key = c.randBytes(keyLens[i])
		}
		sp := c.spellings(key, c.n(5, 10))
		ctr := c.someCounter() >> 1
		sec := c.rng.Int63n(1 << 40)
		t := time.Unix(sec, 0)
		d := okDigits[c.rng.Intn(len(okDigits))]
		a := uint8(c.rng.Intn(3))
		codeH := refHOTP(key, ctr, int(d), int(a))
		codeT := refHOTP(key, uint64(sec)/30, int(d), int(a))
		group := func(mk func(s string, k int) Event) {
			c.grpID++
			c.rec.Hold()
			for k, s := range sp {
				e := mk(s, k)
				e.Grp, e.First = c.grpID, k == 0
				c.rec.Emit(e)
			}
			c.rec.Release()
		}
		group(func(s string, k int) Event {
			return doGenerateHOTP(fmt.Sprintf("C07/ep/genhotp/%d/%d", i, k), s, ctr, P{Digits: d, Alg: a})
		})
		group(func(s string, k int) Event {
			return doGenerateTOTP(fmt.Sprintf("C07/ep/gentotp/%d/%d", i, k), s, t, P{Digits: d, Alg: a, Period: 30})
		})
		group(func(s string, k int) Event {
			return doValidateHOTP(fmt.Sprintf("C07/ep/valhotp/%d/%d", i, k), s, codeH, ctr, P{Digits: d, Alg: a, Skew: 1})
		})
		group(func(s string, k int) Event {
			return doValidateTOTP(fmt.Sprintf("C07/ep/valtotp/%d/%d", i, k), s, codeT, t, P{Digits: d, Alg: a, Skew: 1, Period: 30})
		})
		c.ocraSpellingGroups(i, key, sp, group)
	}
}

// ---------------- C13 ----------------
// Every failure cause of every validator, accepting and rejecting cases; verdict pairs and error texts.
func scenC13(c *ctx) {
	for i := 0; i < c.n(60, 1500); i++ {
		key := c.randBytes(20 + c.rng.Intn(45)) // >= 10 key bytes, >= 16 base32 characters
		secret := c.someSpelling(key)
		d := []uint8{6, 7, 8, 9, 10}[c.rng.Intn(5)]
		a := uint8(c.rng.Intn(3))
		s := uint64(c.rng.Intn(4))
		ctr := c.someCounter()>>2 + 20
		sec := int64(1<<20) + c.rng.Int63n(1<<40)
		// accepting, wrong code (same length), wrong length, neighbour outside window
		for _, cs := range []struct {
			dist int
			ed   string
		}{{0, "exact"}, {int(s), "exact"}, {-int(s), "exact"}, {int(s) + 1, "exact"}, {0, "flip"}, {0, "trunc1"}, {0, "droplast"}, {0, "append0"}, {0, "empty"}, {0, "junk"}} {
			c.rec.Emit(c.hotpValidateCase(fmt.Sprintf("C13h%d", i), key, secret, ctr, P{Digits: d, Alg: a, Skew: s}, cs.dist, cs.ed))
			c.rec.Emit(c.totpValidateCase(fmt.Sprintf("C13t%d", i), key, secret, sec, i, P{Digits: d, Alg: a, Skew: s, Period: 30}, cs.dist, cs.ed))
		}
		code := refHOTP(key, ctr, int(d), int(a))
		// bad hash, bad skew, bad digits, bad secret (the good secret with one character damaged)
		c.rec.Emit(doValidateHOTP(fmt.Sprintf("C13/badalg/%d", i), secret, code, ctr, P{Digits: d, Alg: 3 + uint8(c.rng.Intn(250)), Skew: s}))
		c.rec.Emit(doValidateHOTP(fmt.Sprintf("C13/badskew/%d", i), secret, code, ctr, P{Digits: d, Alg: a, Skew: 11 + uint64(c.rng.Intn(1000))}))
		c.rec.Emit(doValidateTOTP(fmt.Sprintf("C13/badskewT/%d", i), secret, refHOTP(key, uint64(sec)/30, int(d), int(a)), time.Unix(sec, 0), P{Digits: d, Alg: a, Skew: 11 + uint64(c.rng.Intn(1000)), Period: 30}))
		c.rec.Emit(doValidateTOTP(fmt.Sprintf("C13/badalgT/%d", i), secret, code, time.Unix(sec, 0), P{Digits: d, Alg: 3 + uint8(c.rng.Intn(250)), Skew: s, Period: 30}))
		c.rec.Emit(doValidateHOTP(fmt.Sprintf("C13/baddigits/%d", i), secret, code+"00000", ctr, P{Digits: 11 + uint8(c.rng.Intn(200)), Alg: a, Skew: s}))
		// every way a secret text can be undecodable (each failure path may build its own error text)
		damaged := strings.TrimRight(b32(key), "=")
		k := c.rng.Intn(len(damaged))
		switch i % 12 {
		case 0:
			damaged = damaged[:k] + "!" + damaged[k+1:]
		case 1:
			damaged = damaged[:k] + "\u200b" + damaged[k:] // pasted zero-width space
		case 2:
			damaged = "\ufeff" + damaged // byte-order mark
		case 3:
			damaged = damaged[:k] + "\u017f" + damaged[k+1:] // letter whose upper case is S
		case 4:
			damaged = damaged + "\xff"
		case 5:
			damaged = damaged[:k] + "1" + damaged[k+1:]
		case 6:
			damaged = damaged[:k] + "8" + damaged[k+1:]
		case 7:
			damaged = damaged[:k] + "=" + damaged[k+1:] + "A"
		case 8:
			damaged = damaged[:len(damaged)-len(damaged)%8] + "A" // impossible length (one character in the last block)
		case 9:
			damaged = damaged[:k] + "\xc3\xa9" + damaged[k+1:] // é
		case 10:
			damaged = damaged[:k] + "-" + damaged[k:]
		default:
			damaged = damaged[:k] + "\x00" + damaged[k+1:]
		}
		c.rec.Emit(doValidateHOTP(fmt.Sprintf("C13/badsecret/%d", i), damaged, code, ctr, P{Digits: d, Alg: a, Skew: s}))
		c.rec.Emit(doValidateTOTP(fmt.Sprintf("C13/badsecretT/%d", i), damaged, code, time.Unix(sec, 0), P{Digits: d, Alg: a, Skew: s, Period: 30}))
		c.rec.Emit(doGenerateHOTP(fmt.Sprintf("C13/genbadsecret/%d", i), damaged, ctr, P{Digits: d, Alg: a}))
		c.rec.Emit(doGenerateHOTP(fmt.Sprintf("C13/genbadalg/%d", i), secret, ctr, P{Digits: d, Alg: 7}))
		c.rec.Emit(doGenerateTOTP(fmt.Sprintf("C13/genbaddigits/%d", i), secret, time.Unix(sec, 0), P{Digits: 11, Alg: a, Period: 30}))
		c.rec.Emit(doDecodeSecret(fmt.Sprintf("C13/decode/%d", i), damaged))
		c.ocraC13(i, key, secret)
	}
	// both ends of C03's counter domain (c < s, and c + s = 2^64-1 exactly) with every admitted window: accepting
	// and rejecting verdicts there (a window computed as [first, end) wraps to an empty loop at the top end and
	// falls through with no error)
	for s := uint64(0); s <= 10; s++ {
		key := c.someKey()
		secret := b32(key)
		d := []uint8{6, 7, 8, 9, 10}[c.rng.Intn(5)]
		a := uint8(c.rng.Intn(3))
		top := ^uint64(0) - s
		for _, ctr := range []uint64{top, top - 1, 0, s / 2, s, s + 1} {
			dists := []int{0, int(s)}
			if ctr >= s {
				dists = append(dists, -int(s))
			}
			for _, dist := range dists {
				c.rec.Emit(c.hotpValidateCase(fmt.Sprintf("C13end%d", s), key, secret, ctr, P{Digits: d, Alg: a, Skew: s}, dist, "exact"))
			}
			for _, ed := range []string{"flip", "trunc1", "append0", "empty", "junk"} {
				c.rec.Emit(c.hotpValidateCase(fmt.Sprintf("C13end%d", s), key, secret, ctr, P{Digits: d, Alg: a, Skew: s}, 0, ed))
			}
		}
		// the first instants (the window reaches step 0 or below) and the last steps the instants of C04 reach
		for _, sec := range []int64{0, 1, 29, 30, 30 * int64(s), 30*int64(s) + 29, 30 * (int64(s) + 1), (1<<62 - 1) - 30*int64(s)} {
			for _, ed := range []string{"exact", "flip", "trunc1", "append0", "empty", "junk"} {
				c.rec.Emit(c.totpValidateCase(fmt.Sprintf("C13endT%d", s), key, secret, sec, int(s), P{Digits: d, Alg: a, Skew: s, Period: 30}, 0, ed))
			}
		}
	}
}
