package main

func restScenC18(d *restDriver, c *ctx) {}
func restScenC19(d *restDriver, c *ctx) {}
