package main

import (
	"fmt"
	"sort"
	"strings"
	"sync"
	"time"

	"github.com/ja7ad/otp"
)

// ---- request builders: abstract scenario -> typed request + oracle entries + hints ----

type job struct {
	scn, method, path, query, cls string
	probe                         bool
	q                             RReq
	raw                           []byte
	fill                          func(ev *restEvent) // adds oracle entries / hints after the exchange
}

func (d *restDriver) do(c *client, j job) restEvent {
	ev := d.send(c, j.scn, j.method, j.path, j.query, j.cls, j.probe, j.q, j.raw)
	if j.fill != nil {
		j.fill(&ev)
	}
	if strings.HasPrefix(j.path, "/totp/") && uint64FromB(ev.Step0) == 0 && uint64FromB(ev.Step1) == 0 && !j.q.Timestamp.P {
		// server-clock request without a prepared hint: default period
		eff := uint64(30)
		if j.q.Period.P && uint64FromB(j.q.Period.W) != 0 {
			eff = uint64FromB(j.q.Period.W)
		}
		ev.Step0, ev.Step1 = W64(uint64FromB(ev.T0)/eff), W64(uint64FromB(ev.T1)/eff)
	}
	d.record(ev)
	return ev
}

var digitSpellings = []string{"6", "8", "9", "10", "6", "8", "9", "10", "", "7", "06", "ten", " 8", "08", "+8", "009", "010", "+10", "8 ", "8.0", "-8", "１０"}
var algSpellings = []string{"SHA1", "SHA256", "SHA512", "SHA1", "SHA256", "SHA512", "", "sha1", "sha256", "sha512", "Sha256", "SHA-256", "MD5", "SHA384", " SHA256"}

func allAlgWindow(key []byte, c uint64, w int) []Mac {
	var o orcSet
	for a := 0; a < 3; a++ {
		o.counterWindow(a, key, c, w)
	}
	return o.entries()
}

func (c *ctx) restSecret(key []byte) string {
	s := c.someSpelling(key)
	if c.rng.Intn(4) == 0 {
		s = " " + s + "\n"
	}
	return s
}

func trimKey(secret string) ([]byte, bool) { return lenientKey(strings.TrimSpace(secret)) }

func (d *restDriver) jobHOTPGen(c *ctx, tag string, probe bool) job {
	key := c.someKey()
	if len(key) == 0 {
		key = c.randBytes(10)
	}
	q := newRReq()
	sec := c.restSecret(key)
	q.Secret = rfStr(sec)
	ctr := c.someCounter()
	if c.rng.Intn(5) == 0 {
		ctr = 0
	}
	if c.rng.Intn(6) != 0 {
		q.Counter = rfNum(ctr)
	} else {
		ctr = 0
	}
	if c.rng.Intn(3) != 0 {
		q.Digits = rfStr(digitSpellings[c.rng.Intn(len(digitSpellings))])
	}
	if c.rng.Intn(3) != 0 {
		q.Algorithm = rfStr(algSpellings[c.rng.Intn(len(algSpellings))])
	}
	c.foreignTimeFields(&q)
	return job{scn: tag, method: "POST", path: "/hotp/generate", cls: "typed", probe: probe, q: q, fill: func(ev *restEvent) {
		if k, ok := trimKey(sec); ok {
			ev.Orc = allAlgWindow(k, ctr, 0)
		}
	}}
}

func (d *restDriver) jobHOTPVal(c *ctx, tag string, probe bool) job {
	key := c.someKey()
	if len(key) == 0 {
		key = c.randBytes(10)
	}
	q := newRReq()
	sec := c.restSecret(key)
	q.Secret = rfStr(sec)
	ctr := c.someCounter() >> 1
	q.Counter = rfNum(ctr)
	dsp := digitSpellings[c.rng.Intn(len(digitSpellings))]
	asp := algSpellings[c.rng.Intn(len(algSpellings))]
	if dsp != "" || c.rng.Intn(2) == 0 {
		q.Digits = rfStr(dsp)
	}
	if asp != "" || c.rng.Intn(2) == 0 {
		q.Algorithm = rfStr(asp)
	}
	skew := uint64(c.rng.Intn(11))
	if c.rng.Intn(8) == 0 {
		skew = skewsRefused[c.rng.Intn(len(skewsRefused))]
	}
	if skew != 0 || c.rng.Intn(2) == 0 {
		q.Skew = rfNum(skew)
	}
	dist := 0
	if skew <= 10 {
		dist = c.rng.Intn(2*int(skew)+5) - int(skew) - 2
	}
	d0 := int(otp.DigitsFromStr(dsp))
	a0 := int(otp.AlgorithmFromStr(asp))
	code := refHOTP(key, ctr+uint64(int64(dist)), d0, a0)
	if c.rng.Intn(6) == 0 {
		code = c.edit(code, editKinds[c.rng.Intn(len(editKinds))])
	}
	if strings.TrimSpace(code) == "" || !validUTF8(code) {
		code = "000000"
	}
	q.Code = rfStr(code)
	c.foreignTimeFields(&q)
	return job{scn: tag, method: "POST", path: "/hotp/validate", cls: "typed", probe: probe, q: q, fill: func(ev *restEvent) {
		if k, ok := trimKey(sec); ok && skew <= 10 {
			ev.Orc = allAlgWindow(k, ctr, int(skew)+margin)
		}
	}}
}

// foreignTimeFields adds, to a third of the counter-based requests, the fields of the time-based family (a timestamp
// and a period in their usual ranges): an endpoint answers from its own fields only, and its sibling endpoints agree
// (a counter derived from timestamp and period when the counter is absent or 0 would show here).
func (c *ctx) foreignTimeFields(q *RReq) {
	if c.rng.Intn(3) != 0 {
		return
	}
	q.Timestamp = rfNum(uint64(1+c.rng.Intn(30)) + uint64(c.rng.Int63n(1<<31))*uint64(c.rng.Intn(2)))
	if c.rng.Intn(2) == 0 {
		q.Period = rfNum([]uint64{1, 30, 60, 3600}[c.rng.Intn(4)])
	}
}

func validUTF8(s string) bool {
	for _, r := range s {
		if r == 0xFFFD {
			return false
		}
	}
	return true
}

func (d *restDriver) jobTOTP(c *ctx, tag string, probe bool, validate bool) job {
	key := c.someKey()
	if len(key) == 0 {
		key = c.randBytes(10)
	}
	q := newRReq()
	sec := c.restSecret(key)
	q.Secret = rfStr(sec)
	explicit := c.rng.Intn(4) != 0
	var ts int64
	if explicit {
		ts = 1 + c.rng.Int63n(1<<uint(8+c.rng.Intn(50)))
		if c.rng.Intn(5) == 0 {
			ts = []int64{1, 2, 29, 30, 31, 59, 60, 61}[c.rng.Intn(8)] // the smallest explicit instants
		}
		q.Timestamp = rfInt(ts)
	} else if c.rng.Intn(2) == 0 {
		q.Timestamp = rfInt([]int64{0, -5}[c.rng.Intn(2)]) // not positive: the server's clock is used
	}
	per := []uint64{0, 0, 1, 30, 60, 3600}[c.rng.Intn(6)]
	if per != 0 || c.rng.Intn(2) == 0 {
		q.Period = rfNum(per)
	}
	eff := per
	if eff == 0 {
		eff = 30
	}
	dsp := digitSpellings[c.rng.Intn(len(digitSpellings))]
	asp := algSpellings[c.rng.Intn(len(algSpellings))]
	if dsp != "" || c.rng.Intn(2) == 0 {
		q.Digits = rfStr(dsp)
	}
	if asp != "" || c.rng.Intn(2) == 0 {
		q.Algorithm = rfStr(asp)
	}
	path := "/totp/generate"
	skew := uint64(0)
	if validate {
		path = "/totp/validate"
		skew = uint64(c.rng.Intn(11))
		if c.rng.Intn(8) == 0 {
			skew = skewsRefused[c.rng.Intn(len(skewsRefused))]
		}
		if skew != 0 || c.rng.Intn(2) == 0 {
			q.Skew = rfNum(skew)
		}
		base := ts
		if !explicit {
			base = time.Now().Unix()
		}
		dist := 0
		if skew <= 10 {
			dist = c.rng.Intn(2*int(skew)+5) - int(skew) - 2
		}
		step := uint64(base)/eff + uint64(int64(dist))
		code := refHOTP(key, step, int(otp.DigitsFromStr(dsp)), int(otp.AlgorithmFromStr(asp)))
		if c.rng.Intn(6) == 0 {
			code = c.edit(code, editKinds[c.rng.Intn(len(editKinds))])
		}
		if strings.TrimSpace(code) == "" || !validUTF8(code) {
			code = "000000"
		}
		q.Code = rfStr(code)
	}
	return job{scn: tag, method: "POST", path: path, cls: "typed", probe: probe, q: q, fill: func(ev *restEvent) {
		k, ok := trimKey(sec)
		w := 0
		if validate && skew <= 10 {
			w = int(skew) + margin
		}
		var o orcSet
		add := func(step uint64) {
			if ok {
				for a := 0; a < 3; a++ {
					o.counterWindow(a, k, step, w)
				}
			}
		}
		if explicit {
			ev.Step0 = W64(uint64(ts) / eff)
			add(uint64(ts) / eff)
		} else if validate {
			s0, s1 := uint64FromB(ev.T0)/eff, uint64FromB(ev.T1)/eff
			ev.Step0, ev.Step1 = W64(s0), W64(s1)
			add(s0)
			add(s1)
		} else if rt, isMap := ev.Resp["timestamp"].(RF); isMap && rt.P {
			s0 := uint64FromB(rt.W) / eff
			ev.Step0 = W64(s0)
			add(s0)
		}
		ev.Orc = o.entries()
	}}
}

func hexOf(b []byte) string { return fmt.Sprintf("%x", b) }

func (d *restDriver) jobOCRA(c *ctx, tag string, probe bool, validate bool) job {
	key := c.someKey()
	if len(key) == 0 {
		key = c.randBytes(10)
	}
	q := newRReq()
	sec := c.someSpelling(key)
	q.Secret = rfStr(sec)
	var sa suiteArg
	structured := c.rng.Intn(3) == 0 || len(d.suites) == 0
	if structured {
		cf := c.handBuilt(c.rng.Intn(32), c.rng.Intn(3), 4+c.rng.Intn(7), nil)
		if c.rng.Intn(6) == 0 { // unusable structured suites
			switch c.rng.Intn(3) {
			case 0:
				cf.Digits = []int{0, 3, 11}[c.rng.Intn(3)]
			case 1:
				cf.P, cf.PH = true, 0
			default:
				cf.T, cf.TS = true, 0
			}
		}
		cf.Raw = B{}
		q.Suite = RSuite{P: true, Hash: S([]string{"SHA1", "SHA256", "SHA512"}[cf.Hash]), Cfg: cf}
		sa = cfgSuiteArg(cf)
	} else {
		name := c.pickName(d.suites)
		q.RawSuite = rfStr(name)
		x, err := rawSuiteArg(name)
		if err != nil {
			x = cfgSuiteArg(Cfg{Raw: S(name)})
		}
		sa = x
		if c.rng.Intn(3) == 0 {
			// both spellings in one request, describing different suites: the suite string decides, on generation
			// and on validation alike (Rest: OCRASuite)
			cf := c.handBuilt(c.rng.Intn(32), c.rng.Intn(3), 4+c.rng.Intn(7), nil)
			cf.Raw = B{}
			q.Suite = RSuite{P: true, Hash: S([]string{"SHA1", "SHA256", "SHA512"}[cf.Hash]), Cfg: cf}
		}
	}
	in := c.admissibleInput(sa.su.Cfg, c.rng.Intn(8))
	if c.rng.Intn(8) == 0 { // inadmissible input
		in.Challenge = c.randBytes([]int{0, 3, 129}[c.rng.Intn(3)])
	}
	q.InputP = true
	fields := [][]byte{in.Counter, in.Challenge, in.Password, in.SessionInfo, in.Timestamp}
	for i, f := range fields {
		if len(f) > 0 {
			q.Hex[i] = rfStr(hexOf(f))
		} else if c.rng.Intn(2) == 0 {
			q.Hex[i] = rfStr("")
		}
	}
	path := "/ocra/generate"
	if validate {
		path = "/ocra/validate"
		g := doGenerateOCRA("probe", sec, sa, in)
		code := string(g.Val)
		if g.Kind != "value" || code == "" {
			code = "000000"
		}
		if c.rng.Intn(3) == 0 {
			code = c.edit(code, []string{"flip", "fliplast", "droplast", "append0", "leadplus", "prespace", "postnl", "leadspace", "postnul", "double"}[c.rng.Intn(10)])
		}
		if strings.TrimSpace(code) == "" {
			code = "0"
		}
		q.Code = rfStr(code)
	}
	return job{scn: tag, method: "POST", path: path, cls: "typed", probe: probe, q: q, fill: func(ev *restEvent) {
		ev.Orc = ocraOracle(sec, sa, in)
		ev.SuCfg = sa.su.Cfg
		ev.LibSuites = bsOf(d.suites)
	}}
}

func bsOf(l []string) []B {
	out := []B{}
	for _, s := range l {
		out = append(out, S(s))
	}
	return out
}

func (d *restDriver) jobSuites(tag string, probe bool) job {
	return job{scn: tag, method: "GET", path: "/ocra/suites", cls: "typed", probe: probe, q: newRReq(), fill: func(ev *restEvent) { ev.LibSuites = bsOf(d.suites) }}
}

func (d *restDriver) jobSuite(c *ctx, tag, name string) job {
	q := newRReq()
	q.RawSuite = rfStr(name)
	return job{scn: tag, method: "POST", path: "/ocra/suite", cls: "typed", q: q, fill: func(ev *restEvent) { ev.LibSuites = bsOf(d.suites) }}
}

var restTexts = []string{"My Company", "a b", "100%", "a/b", "x?y", "h#t", "a&b", "k=v", "p+q", "me@example.com", "Ünïcödé", "日本", "%41", "acct:sub", "plain", "Example"}

func (d *restDriver) jobURL(c *ctx, tag string) job {
	q := newRReq()
	q.Type = rfStr([]string{"totp", "hotp", "totp", "hotp", "TOTP", "x"}[c.rng.Intn(6)])
	q.Secret = rfStr(b32np(c.randBytes(10)))
	iss := strings.ReplaceAll(restTexts[c.rng.Intn(len(restTexts))], ":", ";")
	q.Issuer = rfStr(iss)
	q.Account = rfStr(restTexts[c.rng.Intn(len(restTexts))])
	if c.rng.Intn(2) == 0 {
		q.Period = rfNum([]uint64{0, 30, 60, 1}[c.rng.Intn(4)])
	}
	if c.rng.Intn(2) == 0 {
		q.Digits = rfStr(digitSpellings[c.rng.Intn(len(digitSpellings))])
	}
	if c.rng.Intn(2) == 0 {
		q.Algorithm = rfStr(algSpellings[c.rng.Intn(len(algSpellings))])
	}
	if c.rng.Intn(10) == 0 {
		switch c.rng.Intn(3) {
		case 0:
			q.Issuer = rfStr("  ")
		case 1:
			q.Account = rfAbsent()
		default:
			q.Secret = rfStr("")
		}
	}
	return job{scn: tag, method: "POST", path: "/otp/url", cls: "typed", q: q}
}

func (d *restDriver) jobSecret(c *ctx, tag string) job {
	q := newRReq()
	query := ""
	if c.rng.Intn(4) != 0 {
		a := algSpellings[c.rng.Intn(len(algSpellings))]
		q.QAlg = rfStr(a)
		query = "algorithm=" + urlQueryEscape(a)
	}
	return job{scn: tag, method: "GET", path: "/otp/secret", query: query, cls: "typed", q: q}
}

func urlQueryEscape(s string) string {
	var sb strings.Builder
	for i := 0; i < len(s); i++ {
		ch := s[i]
		if (ch >= 'a' && ch <= 'z') || (ch >= 'A' && ch <= 'Z') || (ch >= '0' && ch <= '9') {
			sb.WriteByte(ch)
		} else {
			sb.WriteString(fmt.Sprintf("%%%02X", ch))
		}
	}
	return sb.String()
}

func (d *restDriver) randomTyped(c *ctx, tag string, probe bool) job {
	switch c.rng.Intn(12) {
	case 0, 1:
		return d.jobHOTPGen(c, tag, probe)
	case 2, 3:
		return d.jobHOTPVal(c, tag, probe)
	case 4:
		return d.jobTOTP(c, tag, probe, false)
	case 5, 6:
		return d.jobTOTP(c, tag, probe, true)
	case 7:
		return d.jobOCRA(c, tag, probe, false)
	case 8:
		return d.jobOCRA(c, tag, probe, true)
	case 9:
		j := d.jobURL(c, tag)
		j.probe = probe
		return j
	case 10:
		j := d.jobSecret(c, tag)
		j.probe = probe
		return j
	}
	return d.jobSuites(tag, probe)
}

// ---------------- C18 ----------------
func restScenC18(d *restDriver, c *ctx) {
	seq := newClient(1, true, d.deadline)
	n := c.n(250, 6000)
	d.do(seq, job{scn: "C18/home", method: "GET", path: "/", cls: "typed", probe: true, q: newRReq()})
	// sequential, one kept-alive connection: every endpoint
	for i := 0; i < n; i++ {
		d.do(seq, d.randomTyped(c, fmt.Sprintf("C18/seq/%d", i), false))
	}
	// every registered suite: description and one generate -> validate chain
	for i, name := range d.suites {
		d.do(seq, d.jobSuite(c, fmt.Sprintf("C18/suite/%d", i), name))
	}
	for _, name := range []string{"", " ", "OCRA-1:HOTP-SHA1-6:QN99", "OCRA-1:HOTP-SHA1-6:QN08-T1M", "nope"} {
		d.do(seq, d.jobSuite(c, fmt.Sprintf("C18/suite/unknown/%q", name), name))
	}
	d.do(seq, d.jobSuites("C18/suites", false))
	// the same descriptions and the list once more after other traffic: an answer does not depend on having been given before
	for i := 0; i < c.n(20, 200); i++ {
		d.do(seq, d.randomTyped(c, fmt.Sprintf("C18/between/%d", i), false))
	}
	for i, name := range d.suites {
		d.do(seq, d.jobSuite(c, fmt.Sprintf("C18/suite/again/%d", i), name))
		if i%7 == 0 {
			d.do(seq, d.randomTyped(c, fmt.Sprintf("C18/between2/%d", i), false))
		}
	}
	d.do(seq, d.jobSuites("C18/suites/again", false))
	// generate -> validate chains: the code one endpoint generates validates at the matching endpoint
	for i := 0; i < c.n(40, 600); i++ {
		key := c.randBytes(20)
		sec := b32(key)
		q := newRReq()
		q.Secret = rfStr(sec)
		ctr := c.someCounter() >> 1
		q.Counter = rfNum(ctr)
		dsp := []string{"6", "8", "9", "10"}[c.rng.Intn(4)]
		asp := []string{"SHA1", "SHA256", "SHA512"}[c.rng.Intn(3)]
		q.Digits, q.Algorithm = rfStr(dsp), rfStr(asp)
		g := d.do(seq, job{scn: fmt.Sprintf("C18/chain/h/%d/gen", i), method: "POST", path: "/hotp/generate", cls: "typed", q: q, fill: func(ev *restEvent) { ev.Orc = allAlgWindow(key, ctr, 0) }})
		if code, ok := g.Resp["code"].(RF); ok && code.P {
			q2 := q
			q2.Code = rfStr(string(code.S))
			q2.Skew = rfNum(uint64(c.rng.Intn(3)))
			d.do(seq, job{scn: fmt.Sprintf("C18/chain/h/%d/val", i), method: "POST", path: "/hotp/validate", cls: "typed", q: q2, fill: func(ev *restEvent) { ev.Orc = allAlgWindow(key, ctr, 2+margin) }})
		}
		// TOTP at an explicit instant
		ts := 1 + c.rng.Int63n(1<<40)
		qt := newRReq()
		qt.Secret, qt.Timestamp, qt.Digits, qt.Algorithm = rfStr(sec), rfInt(ts), rfStr(dsp), rfStr(asp)
		per := []uint64{30, 60}[c.rng.Intn(2)]
		qt.Period = rfNum(per)
		step := uint64(ts) / per
		gt := d.do(seq, job{scn: fmt.Sprintf("C18/chain/t/%d/gen", i), method: "POST", path: "/totp/generate", cls: "typed", q: qt, fill: func(ev *restEvent) {
			ev.Step0 = W64(step)
			ev.Orc = allAlgWindow(key, step, 0)
		}})
		if code, ok := gt.Resp["code"].(RF); ok && code.P {
			q2 := qt
			q2.Code = rfStr(string(code.S))
			d.do(seq, job{scn: fmt.Sprintf("C18/chain/t/%d/val", i), method: "POST", path: "/totp/validate", cls: "typed", q: q2, fill: func(ev *restEvent) {
				ev.Step0 = W64(step)
				ev.Orc = allAlgWindow(key, step, margin)
			}})
		}
	}
	// the right code wrapped in white space is not the code (on each of the three validation endpoints)
	for i, wrap := range [][2]string{{" ", ""}, {"", " "}, {"", "\n"}, {"\t", ""}, {" ", " "}, {"", "\r\n"}} {
		key := c.randBytes(20)
		sec := b32(key)
		ctr := uint64(1000 + i)
		qh := newRReq()
		qh.Secret, qh.Counter, qh.Code = rfStr(sec), rfNum(ctr), rfStr(wrap[0]+refHOTP(key, ctr, 6, 0)+wrap[1])
		d.do(seq, job{scn: fmt.Sprintf("C18/wrapcode/h/%d", i), method: "POST", path: "/hotp/validate", cls: "typed", q: qh, fill: func(ev *restEvent) { ev.Orc = allAlgWindow(key, ctr, 2+margin) }})
		ts := int64(90000 + 30*i)
		qt := newRReq()
		qt.Secret, qt.Timestamp, qt.Code = rfStr(sec), rfInt(ts), rfStr(wrap[0]+refHOTP(key, uint64(ts)/30, 6, 0)+wrap[1])
		step := uint64(ts) / 30
		d.do(seq, job{scn: fmt.Sprintf("C18/wrapcode/t/%d", i), method: "POST", path: "/totp/validate", cls: "typed", q: qt, fill: func(ev *restEvent) {
			ev.Step0 = W64(step)
			ev.Orc = allAlgWindow(key, step, margin)
		}})
		j := d.jobOCRA(c, fmt.Sprintf("C18/wrapcode/o/%d", i), false, true)
		if j.q.Code.P {
			g := strings.TrimSpace(string(j.q.Code.S))
			j.q.Code = rfStr(wrap[0] + g + wrap[1])
		}
		d.do(seq, j)
	}
	// provisioning URLs: the full grid type x hash x digits x period present/absent
	for _, typ := range []string{"totp", "hotp"} {
		for ai, a := range []string{"SHA1", "SHA256", "SHA512"} {
			for di, dg := range []string{"6", "8", "9", "10"} {
				q := newRReq()
				q.Type, q.Secret, q.Algorithm, q.Digits = rfStr(typ), rfStr(b32np(c.randBytes(10))), rfStr(a), rfStr(dg)
				q.Issuer = rfStr([]string{"Example", "Ex ample/Co", "Exämple", "a+b%c"}[(ai+di)%4])
				q.Account = rfStr([]string{"alice@example.com", "al ice", "älice", "a/b?c#d"}[(ai*2+di)%4])
				if (ai+di)%2 == 0 {
					q.Period = rfNum([]uint64{30, 60, 1, 3600}[di])
				}
				d.do(seq, job{scn: fmt.Sprintf("C18/urlgrid/%s/%s/%s", typ, a, dg), method: "POST", path: "/otp/url", cls: "typed", q: q})
			}
		}
	}
	// the smallest explicit instants (1 is the first value that is "an instant" rather than "use the clock")
	for i, ts := range []int64{1, 2, 29, 30, 31, 59, 60} {
		key := c.randBytes(20)
		sec := b32(key)
		qt := newRReq()
		qt.Secret, qt.Timestamp = rfStr(sec), rfInt(ts)
		if i%2 == 0 {
			qt.Period = rfNum(30)
		}
		step := uint64(ts) / 30
		gt := d.do(seq, job{scn: fmt.Sprintf("C18/chain/tsmall/%d/gen", ts), method: "POST", path: "/totp/generate", cls: "typed", q: qt, fill: func(ev *restEvent) {
			ev.Step0 = W64(step)
			ev.Orc = allAlgWindow(key, step, 0)
		}})
		q2 := qt
		q2.Code = rfStr(refHOTP(key, step, 6, 0))
		if code, ok := gt.Resp["code"].(RF); ok && code.P && i%3 == 0 {
			q2.Code = rfStr(string(code.S))
		}
		d.do(seq, job{scn: fmt.Sprintf("C18/chain/tsmall/%d/val", ts), method: "POST", path: "/totp/validate", cls: "typed", q: q2, fill: func(ev *restEvent) {
			ev.Step0 = W64(step)
			ev.Orc = allAlgWindow(key, step, margin)
		}})
	}
	// concurrently: 4 kept-alive and 4 fresh-connection clients
	var jobs []job
	for i := 0; i < c.n(300, 8000); i++ {
		jobs = append(jobs, d.randomTyped(c, fmt.Sprintf("C18/conc/%d", i), false))
	}
	d.runConcurrent(jobs, 8)
	// bursts on ONE endpoint at a time, 16 kept-alive clients: state a handler shares between its own invocations
	// (a parameter struct hoisted out of the handler, a reused response buffer) only shows when two requests to
	// the same handler with different parameters overlap
	var burstClients []*client
	for k := 0; k < 16; k++ {
		burstClients = append(burstClients, newClient(100+k, true, d.deadline))
	}
	for bi, mk := range []func(tag string) job{
		func(tag string) job { return d.jobHOTPGen(c, tag, false) },
		func(tag string) job { return d.jobTOTP(c, tag, false, false) },
		func(tag string) job { return d.jobHOTPVal(c, tag, false) },
		func(tag string) job { return d.jobTOTP(c, tag, false, true) },
		func(tag string) job { return d.jobOCRA(c, tag, false, false) },
	} {
		var bj []job
		for i := 0; i < c.n(160, 3000); i++ {
			bj = append(bj, mk(fmt.Sprintf("C18/burst/%d/%d", bi, i)))
		}
		d.runConcurrentKA(bj, burstClients)
	}
	for _, cl := range burstClients {
		cl.hc.CloseIdleConnections()
	}
}

// runConcurrentKA: the given clients keep their connections alive (no connection set-up between two requests; the
// same 16 connections serve all bursts: the server admits at most 50 connections per address)
func (d *restDriver) runConcurrentKA(jobs []job, clients []*client) {
	var wg sync.WaitGroup
	ch := make(chan job, len(jobs))
	for _, j := range jobs {
		ch <- j
	}
	close(ch)
	for _, cl := range clients {
		wg.Add(1)
		cl := cl
		go func() {
			defer wg.Done()
			for j := range ch {
				d.do(cl, j)
			}
		}()
	}
	wg.Wait()
}

func (d *restDriver) runConcurrent(jobs []job, clients int) {
	var wg sync.WaitGroup
	ch := make(chan job, len(jobs))
	for _, j := range jobs {
		ch <- j
	}
	close(ch)
	for k := 0; k < clients; k++ {
		wg.Add(1)
		cl := newClient(10+k, k%2 == 0, d.deadline)
		go func() {
			defer wg.Done()
			for j := range ch {
				d.do(cl, j)
			}
		}()
	}
	wg.Wait()
}

// ---------------- C19 ----------------
var allPaths = []string{"/totp/generate", "/totp/validate", "/hotp/generate", "/hotp/validate", "/ocra/generate", "/ocra/validate", "/ocra/suite", "/otp/url", "/ocra/suites", "/otp/secret", "/"}
var allMethods = []string{"GET", "POST", "PUT", "DELETE", "PATCH", "HEAD", "OPTIONS"}

func restScenC19(d *restDriver, c *ctx) {
	cl := newClient(1, true, d.deadline)
	id := 0
	probe := func() {
		id++
		d.do(cl, d.randomTyped(c, fmt.Sprintf("C19/probe/%d", id), true))
		if id%16 == 1 {
			// the service's own front page: a well-formed GET that must be a success
			d.do(cl, job{scn: fmt.Sprintf("C19/home/%d", id), method: "GET", path: "/", cls: "typed", probe: true, q: newRReq()})
		}
	}
	bad := func(path, cls string, body []byte) {
		id++
		d.do(cl, job{scn: fmt.Sprintf("C19/%s/%d", cls, id), method: "POST", path: path, cls: cls, q: newRReq(), raw: body})
	}
	post := allPaths[:8]
	// syntactically broken JSON
	broken := []string{"", "{", "}", "[", "nul", "{\"secret\":", "{\"secret\":\"A\"", "{secret:1}", "{\"secret\":\"A\",}", "\x00\x01", "{\"a\":\"\\uZZZZ\"}", "{\"secret\":\"A\"}}", "'x'", "{\"secret\":\"\xff\"", strings.Repeat("[", 5000), strings.Repeat("{\"a\":", 3000)}
	for _, p := range post {
		for _, b := range broken {
			if c.quick() && c.rng.Intn(2) == 0 {
				continue
			}
			bad(p, "badjson", []byte(b))
		}
		probe()
	}
	// every field with every JSON type (wrong ones)
	fields := map[string]string{"secret": "s", "code": "s", "timestamp": "n", "counter": "n", "digits": "s", "period": "n", "skew": "n", "algorithm": "s", "raw_suite": "s", "suite": "o", "input": "o", "type": "s", "issuer": "s", "account_name": "s"}
	vals := map[string]string{"s": `"x"`, "n": `5`, "b": `true`, "o": `{"a":1}`, "a": `[1]`, "f": `1.5`, "neg": `-1`, "big": `184467440737095516160`, "exp": `1e400`}
	fieldNames := sortedKeys(fields)
	kindNames := sortedKeys(vals)
	for _, p := range post {
		for _, f := range fieldNames {
			want := fields[f]
			for _, kind := range kindNames {
				lit := vals[kind]
				okFor := kind == want || (want == "n" && false)
				if okFor {
					continue
				}
				if (want == "s" && (kind == "s")) || (want == "o" && kind == "o") {
					continue
				}
				if want == "n" && kind == "n" {
					continue
				}
				if f == "timestamp" && kind == "neg" {
					continue // the timestamp is a signed field: -1 is well typed (and means "use the clock")
				}
				if c.quick() && c.rng.Intn(6) != 0 {
					continue
				}
				// a wrong-typed value for a field the endpoint decodes is a decode error; fields the endpoint does
				// not know are ignored by the decoder, so only fields of the endpoint's request type are used
				if !endpointHas(p, f) {
					continue
				}
				bad(p, "wrongtype", []byte(fmt.Sprintf(`{"secret":"JBSWY3DPEHPK3PXP","code":"123456",%q:%s}`, f, lit)))
			}
		}
		probe()
	}
	// poisoning: a request that is refused because ONE field has the wrong type, while its other fields carry
	// non-default values, must not influence the next, minimal request to the same endpoint
	for round := 0; round < c.n(3, 30); round++ {
		for _, path := range []string{"/hotp/generate", "/hotp/validate", "/totp/generate", "/totp/validate"} {
			wrong := []string{`"counter":"x"`, `"timestamp":"x"`, `"period":"x"`, `"skew":[1]`, `"counter":1.5`}[c.rng.Intn(5)]
			if strings.HasSuffix(path, "generate") && strings.Contains(wrong, "skew") {
				wrong = `"counter":"x"`
			}
			bad(path, "wrongtype", []byte(fmt.Sprintf(`{"secret":"GEZDGNBVGY3TQOJQGEZDGNBVGY3TQOJQ","code":"12345678","digits":"8","algorithm":"SHA512","period":60,"skew":3,%s}`, wrong)))
			// minimal probes right after it: optional fields absent
			id++
			key := c.randBytes(20)
			q := newRReq()
			q.Secret = rfStr(b32(key))
			ctr := uint64(1 + c.rng.Intn(1000))
			ts := int64(1700000000 + c.rng.Intn(100000))
			var fill func(ev *restEvent)
			switch path {
			case "/hotp/generate":
				q.Counter = rfNum(ctr)
				fill = func(ev *restEvent) { ev.Orc = allAlgWindow(key, ctr, 0) }
			case "/hotp/validate":
				q.Counter = rfNum(ctr)
				q.Code = rfStr(refHOTP(key, ctr+uint64(c.rng.Intn(3)), 6, 0)) // distance 0..2 with the default window 0
				fill = func(ev *restEvent) { ev.Orc = allAlgWindow(key, ctr, margin) }
			case "/totp/generate":
				q.Timestamp = rfInt(ts)
				fill = func(ev *restEvent) { ev.Step0 = W64(uint64(ts) / 30); ev.Orc = allAlgWindow(key, uint64(ts)/30, 0) }
			default:
				q.Timestamp = rfInt(ts)
				q.Code = rfStr(refHOTP(key, uint64(ts)/30+uint64(c.rng.Intn(3)), 6, 0))
				fill = func(ev *restEvent) {
					ev.Step0 = W64(uint64(ts) / 30)
					ev.Orc = allAlgWindow(key, uint64(ts)/30, margin)
				}
			}
			d.do(cl, job{scn: fmt.Sprintf("C19/afterpoison/%d", id), method: "POST", path: path, cls: "typed", probe: true, q: q, fill: fill})
		}
	}
	// numbers at and beyond 64-bit limits, extremes of skew / period / counter / timestamp (well typed: answered as C18 says)
	for _, sk := range []uint64{10, 11, 1000, 1000000, 1000000000, 1 << 40, 1 << 63, 1<<64 - 1} {
		for _, path := range []string{"/totp/validate", "/hotp/validate"} {
			id++
			key := c.randBytes(20)
			q := newRReq()
			q.Secret, q.Code, q.Skew = rfStr(b32(key)), rfStr("123456"), rfNum(sk)
			q.Counter, q.Timestamp = rfNum(5), rfInt(1700000000)
			skk := sk
			d.do(cl, job{scn: fmt.Sprintf("C19/skew/%d/%s", sk, path), method: "POST", path: path, cls: "typed", probe: true, q: q, fill: func(ev *restEvent) {
				ev.Step0 = W64(1700000000 / 30)
				if skk <= 10 {
					ev.Orc = append(allAlgWindow(key, 5, int(skk)+margin), allAlgWindow(key, 1700000000/30, int(skk)+margin)...)
				}
			}})
		}
		probe()
	}
	for _, lit := range []string{"18446744073709551616", "-1", "1e30", "99999999999999999999999999", "0.5"} {
		for _, f := range []string{"counter", "timestamp", "period", "skew"} {
			path := "/totp/validate"
			if f == "counter" {
				path = "/hotp/validate"
			}
			if f == "timestamp" && lit == "-1" {
				continue // a negative timestamp is well typed (int64): the clock is used
			}
			bad(path, "wrongtype", []byte(fmt.Sprintf(`{"secret":"JBSWY3DPEHPK3PXP","code":"123456",%q:%s}`, f, lit)))
		}
	}
	probe()
	// empty / white-space / huge strings up to the body limit
	for _, p := range post {
		for _, s := range []string{"", " ", "\t\n", strings.Repeat("A", 100001), strings.Repeat("A", 900001)} {
			id++
			q := newRReq()
			short := s
			if len(short) > 1000 {
				short = "x" // keep the whole body below the 1 MiB limit: one huge field at a time
			}
			q.Secret, q.Code = rfStrLong(s), rfStr(short)
			q.RawSuite, q.Type, q.Issuer, q.Account = rfStr(short), rfStr(short), rfStr(short), rfStr(short)
			if len(s) > 1000 && id%2 == 0 {
				q.Secret, q.Code, q.RawSuite = rfStr("JBSWY3DPEHPK3PXP"), rfStrLong(s), rfStr(short)
			}
			cls := "typed"
			d.do(cl, job{scn: fmt.Sprintf("C19/strings/%d", id), method: "POST", path: p, cls: cls, probe: true, q: q, fill: func(ev *restEvent) {
				ev.LibSuites = bsOf(d.suites)
				if k, ok := trimKey(string(q.Secret.S)); ok {
					s0, s1 := uint64FromB(ev.T0)/30, uint64FromB(ev.T1)/30
					ev.Step0, ev.Step1 = W64(s0), W64(s1)
					ev.Orc = append(append(allAlgWindow(k, 0, margin), allAlgWindow(k, s0, margin)...), allAlgWindow(k, s1, margin)...)
				}
			}})
		}
		// beyond the 1 MiB body limit
		bad(p, "overlimit", []byte(`{"secret":"`+strings.Repeat("A", 1100000)+`"}`))
		probe()
	}
	// all methods x all paths, unknown paths
	for _, p := range append(append([]string{}, allPaths...), "/nope", "/totp", "/totp/generatex", "/TOTP/generate", "/hotp/", "/docs", "/docs/index.html", "/docs/doc.json") {
		for _, m := range allMethods {
			id++
			cls := "typed"
			if strings.HasPrefix(p, "/docs") {
				cls = "docs"
			}
			q := newRReq()
			var raw []byte
			if m != "GET" && m != "HEAD" {
				raw = []byte(`{"secret":"JBSWY3DPEHPK3PXP","code":"123456"}`)
			}
			okMethod := (m == "POST" && isIn(p, allPaths[:8])) || (m == "GET" && isIn(p, allPaths[8:]))
			if okMethod {
				continue // the well-formed combinations are exercised by the probes
			}
			j := job{scn: fmt.Sprintf("C19/route/%s%s", m, p), method: m, path: p, cls: cls, probe: true, q: q, raw: raw}
			if m == "HEAD" && cls != "docs" {
				j.cls = "head"
			}
			d.do(cl, j)
		}
		probe()
	}
	// contradictory / unknown suites
	for _, body := range []string{
		`{"secret":"JBSWY3DPEHPK3PXP","raw_suite":"OCRA-1:HOTP-SHA1-6:QN99","input":{}}`,
		`{"secret":"JBSWY3DPEHPK3PXP","raw_suite":"   ","suite":{"hash_function":"SHA1","code_digits":6,"challenge_format":1,"include_challenge":true},"input":{"challenge_hex":"3132333435363738"}}`,
		`{"secret":"JBSWY3DPEHPK3PXP","raw_suite":"nope","suite":{"hash_function":"SHA1","code_digits":6},"input":{}}`,
		`{"secret":"JBSWY3DPEHPK3PXP","suite":{"hash_function":"SHA1","code_digits":99},"input":{}}`,
		`{"secret":"JBSWY3DPEHPK3PXP","raw_suite":"OCRA-1:HOTP-SHA1-6:QN08"}`,
		`{"secret":"JBSWY3DPEHPK3PXP","raw_suite":"OCRA-1:HOTP-SHA1-6:QN08","input":null}`,
		`{"secret":"JBSWY3DPEHPK3PXP","raw_suite":"OCRA-1:HOTP-SHA1-6:QN08","input":{"challenge_hex":"zz"}}`,
		`{"secret":"JBSWY3DPEHPK3PXP","raw_suite":"OCRA-1:HOTP-SHA1-6:QN08","input":{"challenge_hex":"31"}}`,
	} {
		bad("/ocra/generate", "refused", []byte(body))
		bad("/ocra/validate", "refused", []byte(strings.Replace(body, `{"secret"`, `{"code":"123456","secret"`, 1)))
	}
	probe()
	// random fault sequences interleaved with probes, then a concurrent burst
	for i := 0; i < c.n(150, 4000); i++ {
		p := post[c.rng.Intn(len(post))]
		switch c.rng.Intn(3) {
		case 0:
			bad(p, "badjson", c.randBytes(c.rng.Intn(200)))
		case 1:
			bad(p, "badjson", []byte(broken[c.rng.Intn(len(broken))]))
		default:
			probe()
		}
	}
	var jobs []job
	for i := 0; i < c.n(200, 4000); i++ {
		if i%3 == 0 {
			jobs = append(jobs, job{scn: fmt.Sprintf("C19/concbad/%d", i), method: "POST", path: post[c.rng.Intn(len(post))], cls: "badjson", q: newRReq(), raw: []byte(broken[c.rng.Intn(len(broken))])})
		} else {
			jobs = append(jobs, d.randomTyped(c, fmt.Sprintf("C19/concprobe/%d", i), true))
		}
	}
	d.runConcurrent(jobs, 8)
	// the process must still be there and answering
	probe()
	ev := restEvent{Scn: "C19/alive", Path: "/", Method: "GET", Cls: "alive", Probe: d.alive(), Req: newRReq().asMap(), Orc: []Mac{}, LibSuites: []B{},
		Step0: W64(0), Step1: W64(0), SuCfg: Cfg{Raw: B{}}, T0: W64(0), T1: W64(0)}
	ev.Resp = d.send(cl, "x", "GET", "/", "", "typed", true, newRReq(), nil).Resp
	d.record(ev)
}

func sortedKeys(m map[string]string) []string {
	var ks []string
	for k := range m {
		ks = append(ks, k)
	}
	sort.Strings(ks)
	return ks
}

func isIn(s string, l []string) bool {
	for _, x := range l {
		if x == s {
			return true
		}
	}
	return false
}

func endpointHas(path, field string) bool {
	gen := map[string]bool{"secret": true, "timestamp": true, "counter": true, "digits": true, "period": true, "algorithm": true}
	val := map[string]bool{"secret": true, "timestamp": true, "counter": true, "code": true, "digits": true, "period": true, "skew": true, "algorithm": true}
	switch path {
	case "/totp/generate", "/hotp/generate":
		return gen[field]
	case "/totp/validate", "/hotp/validate":
		return val[field]
	case "/ocra/generate":
		return field == "secret" || field == "raw_suite" || field == "suite" || field == "input"
	case "/ocra/validate":
		return field == "secret" || field == "code" || field == "raw_suite" || field == "suite" || field == "input"
	case "/ocra/suite":
		return field == "raw_suite"
	case "/otp/url":
		return field == "type" || field == "secret" || field == "issuer" || field == "account_name" || field == "period" || field == "digits" || field == "algorithm"
	}
	return false
}
