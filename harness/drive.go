package main

import (
	"fmt"
	"sync/atomic"
	"time"

	"github.com/ja7ad/otp"
)

// result of one call of the real code
type result struct {
	ret string // the string exactly as returned (shares memory with whatever the library returned)
	val []byte
	ok  bool
	err error
	y   any
}

var callTimeout = 5 * time.Second
var workLimit = 64 // HMAC constructions after which a call is aborted (hook mode only)

// A call that does not return is abandoned after callTimeout, but its goroutine keeps running. A change that makes
// a whole class of calls hang would cost callTimeout per event and ever more CPU: after maxHangs such calls in one
// process the rest of the scenario is skipped (the recorded hangs are what the trace is judged on).
const maxHangs = 12

var hangs atomic.Int32

// invoke runs fn under recover with a watchdog and fills the reply part of the event.
func invoke(e *Event, fn func() result) { invokeOn(e, nil, nil, fn) }

// invokeOn additionally runs before/after on the goroutine that executes the call.
func invokeOn(e *Event, before, after func(), fn func() result) {
	if hangs.Load() >= maxHangs {
		e.Kind = "skipped" // circuit breaker: see maxHangs
		return
	}
	if freshMode && e.Scn != "probe" && !freshRe.MatchString(e.Scn) {
		e.Kind = "skipped" // fresh pass: only the history-sensitive sequences touch the library (see main.go)
		return
	}
	type out struct {
		r     result
		panic any
		abort bool
	}
	ch := make(chan out, 1)
	obsBegin(workLimit)
	go func() {
		var o out
		defer func() {
			if p := recover(); p != nil {
				if _, isAbort := p.(abortCall); isAbort {
					o.abort = true
				} else {
					o.panic = p
				}
			}
			ch <- o
		}()
		if before != nil {
			before()
		}
		if after != nil {
			defer after()
		}
		o.r = fn()
	}()
	var o out
	select {
	case o = <-ch:
	case <-time.After(callTimeout):
		hangs.Add(1)
		e.Kind = "hang"
		e.Mac, e.MacN = obsEnd()
		e.Err = S(fmt.Sprintf("no return within %v", callTimeout))
		return
	}
	e.Mac, e.MacN = obsEnd()
	switch {
	case o.abort:
		e.Kind = "abort"
		e.Err = S(fmt.Sprintf("aborted after %d HMAC evaluations", workLimit))
	case o.panic != nil:
		e.Kind = "panic"
		e.Err = S(fmt.Sprint(o.panic))
	default:
		e.OK = o.r.ok
		if o.r.val != nil {
			e.Val = B(o.r.val)
		}
		e.ret = o.r.ret
		if o.r.y != nil {
			e.Y = o.r.y
		}
		if o.r.err != nil {
			e.Kind = "error"
			e.HasErr = true
			e.Err = S(o.r.err.Error())
		} else {
			e.Kind = "value"
		}
	}
}

// ---- parameter plumbing ----

type P struct {
	Nil    bool
	Digits uint8
	Alg    uint8
	Skew   uint64
	Period uint64
}

func (p P) ptr() *otp.Param {
	if p.Nil {
		return nil
	}
	return &otp.Param{Digits: otp.Digits(p.Digits), Algorithm: otp.Algorithm(p.Alg), Skew: uint(p.Skew), Period: uint(p.Period)}
}

func (p P) fill(e *Event) {
	e.PNil = p.Nil
	e.Digits = int(p.Digits)
	e.Alg = int(p.Alg)
	e.Skew = W64(p.Skew)
	e.Period = W64(p.Period)
}

// resolved view used only for choosing oracle entries
func (p P) hotp() (alg int, skew uint64) {
	if p.Nil {
		return 0, 2
	}
	return int(p.Alg), p.Skew
}
func (p P) totp() (alg int, skew, period uint64) {
	if p.Nil {
		return 0, 0, 30
	}
	per := p.Period
	if per == 0 {
		per = 30
	}
	return int(p.Alg), p.Skew, per
}

// ---- operations ----

func doDecodeSecret(scn, secret string) Event {
	e := newEvent("DecodeSecret", scn)
	e.Secret = S(secret)
	invoke(&e, func() result {
		b, err := otp.DecodeSecret(secret)
		if b == nil {
			b = []byte{}
		}
		return result{val: b, err: err}
	})
	return e
}

func doGenerateHOTP(scn, secret string, ctr uint64, p P) Event {
	e := newEvent("GenerateHOTP", scn)
	e.Secret, e.Ctr = S(secret), W64(ctr)
	p.fill(&e)
	var o orcSet
	if key, ok := lenientKey(secret); ok {
		alg, _ := p.hotp()
		o.add(alg, key, W64(ctr))
	}
	e.Orc = o.entries()
	invoke(&e, func() result {
		s, err := otp.GenerateHOTP(secret, ctr, p.ptr())
		return result{val: []byte(s), err: err, ret: s}
	})
	return e
}

const margin = 3

func doValidateHOTP(scn, secret, code string, ctr uint64, p P) Event {
	e := newEvent("ValidateHOTP", scn)
	e.Secret, e.Code, e.Ctr = S(secret), S(code), W64(ctr)
	p.fill(&e)
	var o orcSet
	if key, ok := lenientKey(secret); ok {
		alg, skew := p.hotp()
		if skew <= 10 {
			o.counterWindow(alg, key, ctr, int(skew)+margin)
		}
	}
	e.Orc = o.entries()
	invoke(&e, func() result {
		ok, err := otp.ValidateHOTP(secret, code, ctr, p.ptr())
		return result{ok: ok, err: err}
	})
	return e
}

func stepOf(t time.Time, period uint64) uint64 { return uint64(t.Unix()) / period }

func doGenerateTOTP(scn, secret string, t time.Time, p P) Event {
	e := newEvent("GenerateTOTP", scn)
	e.Secret, e.Sec = S(secret), W64(uint64(t.Unix()))
	p.fill(&e)
	alg, _, per := p.totp()
	st := stepOf(t, per)
	e.Step = W64(st)
	var o orcSet
	if key, ok := lenientKey(secret); ok {
		o.add(alg, key, W64(st))
	}
	e.Orc = o.entries()
	e.R = map[string]any{"nsec": t.Nanosecond(), "zone": t.Location().String()}
	invoke(&e, func() result {
		s, err := otp.GenerateTOTP(secret, t, p.ptr())
		return result{val: []byte(s), err: err, ret: s}
	})
	return e
}

func doValidateTOTP(scn, secret, code string, t time.Time, p P) Event {
	e := newEvent("ValidateTOTP", scn)
	e.Secret, e.Code, e.Sec = S(secret), S(code), W64(uint64(t.Unix()))
	p.fill(&e)
	alg, skew, per := p.totp()
	st := stepOf(t, per)
	e.Step = W64(st)
	var o orcSet
	if key, ok := lenientKey(secret); ok && skew <= 10 {
		o.counterWindow(alg, key, st, int(skew)+margin)
	}
	e.Orc = o.entries()
	e.R = map[string]any{"nsec": t.Nanosecond(), "zone": t.Location().String()}
	invoke(&e, func() result {
		ok, err := otp.ValidateTOTP(secret, code, t, p.ptr())
		return result{ok: ok, err: err}
	})
	return e
}
