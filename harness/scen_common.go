package main

import (
	"math/rand"
	"strings"
	"time"
)

type ctx struct {
	rng   *rand.Rand
	rec   *Recorder
	tier  string
	seed  int64
	grpID int
}

func (c *ctx) quick() bool { return c.tier != "thorough" }

// n picks the quick or the thorough size.
func (c *ctx) n(q, t int) int {
	if c.quick() {
		return q
	}
	return t
}

func (c *ctx) randBytes(n int) []byte {
	b := make([]byte, n)
	c.rng.Read(b)
	return b
}

var keyLens = []int{0, 1, 19, 20, 21, 31, 32, 33, 63, 64, 65, 127, 128, 129, 200}

// keyClasses: boundary lengths around hash sizes and HMAC block sizes, with extreme and random bytes.
func (c *ctx) keyClasses() [][]byte {
	var out [][]byte
	for _, n := range keyLens {
		z := make([]byte, n)
		f := make([]byte, n)
		for i := range f {
			f[i] = 0xFF
		}
		out = append(out, z, f, c.randBytes(n))
	}
	return out
}

func (c *ctx) someKey() []byte {
	switch c.rng.Intn(4) {
	case 0:
		return c.randBytes(keyLens[c.rng.Intn(len(keyLens))])
	case 1:
		return c.randBytes(20)
	default:
		return c.randBytes(1 + c.rng.Intn(70))
	}
}

var ctrAnchors = []uint64{0, 1, 2, 9, 10, 11, 255, 256, 65535, 65536, 1<<31 - 1, 1 << 31, 1<<32 - 1, 1 << 32, 1<<53 - 1, 1 << 53,
	1<<63 - 1, 1 << 63, 1<<63 + 1, 1<<64 - 1}

func (c *ctx) someCounter() uint64 {
	switch c.rng.Intn(3) {
	case 0:
		a := ctrAnchors[c.rng.Intn(len(ctrAnchors))]
		return a + uint64(int64(c.rng.Intn(7)-3))
	case 1:
		return c.rng.Uint64()
	default:
		return c.rng.Uint64() >> uint(c.rng.Intn(64))
	}
}

func mixCase(rng *rand.Rand, s string) string {
	b := []byte(s)
	for i, ch := range b {
		if ch >= 'A' && ch <= 'Z' && rng.Intn(2) == 0 {
			b[i] = ch + 32
		}
	}
	return string(b)
}

var wsPieces = []string{" ", "\t", "\n", "\r\n", "  ", " \t\n", "\n\n"}

func (c *ctx) ws() string { return wsPieces[c.rng.Intn(len(wsPieces))] }

// spellings of a key in the must-accept region; the first one is the canonical (padded, upper-case) form.
func (c *ctx) spellings(key []byte, max int) []string {
	canon := b32(key)
	np := strings.TrimRight(canon, "=")
	pad := len(canon) - len(np)
	out := []string{canon}
	cand := []string{np, strings.ToLower(canon), strings.ToLower(np), mixCase(c.rng, np), mixCase(c.rng, canon),
		c.ws() + canon + c.ws(), c.ws() + strings.ToLower(np), np + c.ws(), c.ws() + mixCase(c.rng, np) + c.ws()}
	for k := 1; k < pad; k++ {
		cand = append(cand, np+strings.Repeat("=", k))
	}
	seen := map[string]bool{canon: true}
	c.rng.Shuffle(len(cand), func(i, j int) { cand[i], cand[j] = cand[j], cand[i] })
	for _, s := range cand {
		if len(out) >= max {
			break
		}
		if !seen[s] {
			seen[s] = true
			out = append(out, s)
		}
	}
	return out
}

func (c *ctx) someSpelling(key []byte) string {
	sp := c.spellings(key, 4)
	return sp[c.rng.Intn(len(sp))]
}

// refHOTP is used ONLY to choose interesting inputs (codes of neighbouring counters); verdicts
// are made by the specification.
func refHOTP(key []byte, ctr uint64, digits, alg int) string {
	sum := hmacSum(alg, key, W64(ctr))
	if sum == nil || digits < 1 || digits > 10 {
		return ""
	}
	o := sum[len(sum)-1] & 0xf
	bin := (uint64(sum[o]&0x7f) << 24) | uint64(sum[o+1])<<16 | uint64(sum[o+2])<<8 | uint64(sum[o+3])
	mod := uint64(1)
	for i := 0; i < digits; i++ {
		mod *= 10
	}
	s := []byte(strings.Repeat("0", digits))
	v := bin % mod
	for i := digits - 1; i >= 0; i-- {
		s[i] = byte('0' + v%10)
		v /= 10
	}
	return string(s)
}

var editKinds = []string{"exact", "flip", "droplast", "dropfirst", "append0", "prespace", "postnl", "plus", "arabic", "fullwidth", "empty", "junk", "trunc1", "fliplast", "flipfirst", "postnul", "double", "leadplus", "leadspace"}

func (c *ctx) edit(code, kind string) string {
	switch kind {
	case "exact":
		return code
	case "flip":
		if code == "" {
			return "0"
		}
		b := []byte(code)
		i := c.rng.Intn(len(b))
		b[i] = '0' + (b[i]-'0'+1+byte(c.rng.Intn(9)))%10
		return string(b)
	case "fliplast":
		if code == "" {
			return "0"
		}
		b := []byte(code)
		b[len(b)-1] = '0' + (b[len(b)-1]-'0'+1+byte(c.rng.Intn(9)))%10
		return string(b)
	case "flipfirst":
		if code == "" {
			return "0"
		}
		b := []byte(code)
		b[0] = '0' + (b[0]-'0'+1+byte(c.rng.Intn(9)))%10
		return string(b)
	case "leadplus", "leadspace":
		// same numeric value, different bytes (meaningful when the code starts with '0')
		if code == "" {
			return "+"
		}
		if kind == "leadplus" {
			return "+" + code[1:]
		}
		return " " + code[1:]
	case "postnul":
		return code + "\x00"
	case "double":
		return code + code
	case "droplast":
		if code == "" {
			return code
		}
		return code[:len(code)-1]
	case "dropfirst":
		if code == "" {
			return code
		}
		return code[1:]
	case "append0":
		return code + "0"
	case "prespace":
		return " " + code
	case "postnl":
		return code + "\n"
	case "plus":
		return "+" + code
	case "arabic":
		var sb strings.Builder
		for _, ch := range code {
			sb.WriteRune(0x0660 + (ch - '0'))
		}
		return sb.String()
	case "fullwidth":
		var sb strings.Builder
		for _, ch := range code {
			sb.WriteRune(0xFF10 + (ch - '0'))
		}
		return sb.String()
	case "empty":
		return ""
	case "junk":
		return string(c.randBytes(c.n(300, 4096)))
	case "trunc1":
		// a same-length string sharing a prefix with the code
		if len(code) < 2 {
			return code
		}
		b := []byte(code)
		k := 1 + c.rng.Intn(len(b)-1)
		for i := k; i < len(b); i++ {
			b[i] = '0' + byte(c.rng.Intn(10))
		}
		return string(b)
	}
	return code
}

var zones = []*time.Location{time.UTC, time.FixedZone("plus14", 14*3600), time.FixedZone("minus12", -12*3600), time.FixedZone("odd", 5*3600+45*60)}

// instant builds a time.Time for the given Unix second with varying sub-second part, zone and monotonic reading.
func (c *ctx) instant(sec int64, variant int) time.Time {
	nsecs := []int64{0, 1, 999999999, 500000000}
	switch variant % 6 {
	case 0:
		return time.Unix(sec, 0).UTC()
	case 1:
		return time.Unix(sec, nsecs[c.rng.Intn(len(nsecs))]).In(zones[c.rng.Intn(len(zones))])
	case 2:
		// derived from time.Now(): carries a monotonic clock reading
		now := time.Now()
		if d := sec - now.Unix(); d > 6000000000 || d < -6000000000 {
			return time.Unix(sec, 999999999).In(zones[3])
		}
		return now.Add(time.Unix(sec, 999999999).Sub(now))
	case 3:
		return time.Unix(sec, 999999999).In(zones[1])
	case 4:
		return time.Unix(sec, 1).In(zones[2])
	default:
		return time.Unix(sec, 0)
	}
}

// pickName draws from a list the LIBRARY returned (the advertised suites); a tree under test may return an empty
// list, which must show in the trace, not crash the generator.
func (c *ctx) pickName(names []string) string {
	if len(names) == 0 {
		return "OCRA-1:HOTP-SHA1-6:QN08"
	}
	return names[c.rng.Intn(len(names))]
}

// suiteTokenEdits: a suite string with ONE token damaged in every simple way (shortened, lengthened, emptied,
// doubled, other case, other digits). Parsers index into tokens; every token kind and every token length
// near the expected one is a thin slice of "all strings".
func (c *ctx) suiteTokenEdits() []string {
	base := []string{"OCRA-1:HOTP-SHA1-6:QN08", "OCRA-1:HOTP-SHA256-8:C-QN08-PSHA1", "OCRA-1:HOTP-SHA512-8:QA10-T1M", "OCRA-1:HOTP-SHA1-6:C-QH08-S064-T30S",
		"OCRA-1:HOTP-SHA256-10:QN10-PSHA512-S128-T12H"}
	seen := map[string]bool{}
	var out []string
	add := func(x string) {
		if !seen[x] {
			seen[x] = true
			out = append(out, x)
		}
	}
	for _, b := range base {
		parts := strings.Split(b, ":")
		for pi := range parts {
			toks := strings.Split(parts[pi], "-")
			for ti, tok := range toks {
				var vars []string
				for n := 0; n <= len(tok); n++ { // every prefix, every suffix
					vars = append(vars, tok[:n], tok[n:])
				}
				for _, x := range []string{"0", "1", "9", "00", "123", "A", "S", "M", "H", "Q", "N", " ", "-", "é"} {
					vars = append(vars, tok+x, x+tok)
					if len(tok) > 1 {
						vars = append(vars, tok[:1]+x+tok[1:], tok[:len(tok)-1]+x)
					}
				}
				vars = append(vars, tok+tok, strings.ToLower(tok), "")
				for _, v := range vars {
					t2 := append(append([]string{}, toks[:ti]...), v)
					t2 = append(t2, toks[ti+1:]...)
					p2 := append(append([]string{}, parts[:pi]...), strings.Join(t2, "-"))
					p2 = append(p2, parts[pi+1:]...)
					add(strings.Join(p2, ":"))
				}
			}
		}
	}
	return out
}

// zeroRich: (hash, counter, digits) under the RFC 4226 test key whose code has at least five (mostly six or seven)
// leading zeros -- one in 10^5..10^7 counters, found once by an offline search over 12 million counters per hash
// (inputs only; what the code must be is still computed by the specification from the oracle digests). Padding
// code that is right for a few leading zeros and wrong for many lives in this slice.
var zeroRichKey = []byte("12345678901234567890")
var zeroRich = []struct {
	Alg int
	Ctr uint64
	D   int
}{
	{0, 226500, 6}, {0, 349495, 6}, {0, 371561, 8}, {0, 381962, 9}, {0, 674126, 9}, {0, 732066, 10}, {0, 1056625, 8}, {0, 1190411, 10}, {0, 1290532, 6}, {0, 1290532, 7},
	{0, 1299963, 7}, {0, 1550839, 9}, {0, 1571795, 9}, {0, 2011430, 10}, {0, 4222148, 10},
	{1, 86011, 9}, {1, 86011, 10}, {1, 187300, 6}, {1, 228408, 10}, {1, 263870, 6}, {1, 774220, 8}, {1, 1079093, 7}, {1, 1098686, 9}, {1, 1144553, 7}, {1, 1366003, 6},
	{1, 1485815, 6}, {1, 2286624, 8}, {1, 2756830, 10}, {1, 5516941, 9},
	{2, 128563, 10}, {2, 226670, 10}, {2, 287158, 6}, {2, 329027, 6}, {2, 456387, 9}, {2, 943429, 8}, {2, 1192784, 7}, {2, 1358858, 8}, {2, 1630568, 7}, {2, 2087438, 6},
	{2, 2105265, 6}, {2, 2137886, 9}, {2, 2433094, 10}, {2, 6135111, 10}, {2, 6387016, 9},
}
