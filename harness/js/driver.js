// Node driver for property C20: calls the freshly built otp.wasm through globalThis.* ("global") or
// through the object returned by a scratch copy of otp-js/src/index.js ("package"), for every scenario
// of the input file, and writes what came back. It decides nothing.
//   node driver.js <mode> <dir> <scenarios.ndjson> <out.ndjson>
//     mode global : <dir> contains wasm_exec.js (toolchain's) and otp.wasm
//     mode package: <dir> is a copy of otp-js/ with src/index.js, src/wasm_exec.js and lib/otp.wasm (fresh build)
const fs = require("fs");
const path = require("path");

const [mode, dir, inFile, outFile, startArg] = process.argv.slice(2);
const start = parseInt(startArg || "0", 10);   // resume after a call that never returned (the driver was killed)
const origLog = console.log;
console.log = () => {};           // the binding logs every call

function decodeArg(a) {
  switch (a.t) {
    case "string": return Buffer.from(a.s).toString("utf8");
    case "number": { let v = Number(a.lit); return v; }
    case "nan": return NaN;
    case "inf": return a.neg ? -Infinity : Infinity;
    case "huge": return Number(a.lit);
    case "undefined": return undefined;
    case "null": return null;
    case "boolean": return !!a.b;
    case "object": return { a: 1 };
    case "array": return [1, 2];
    case "bigint": return BigInt(7);
    case "function": return function () {};
  }
  return undefined;
}

function encodeRet(r) {
  const t = r === null ? "null" : Array.isArray(r) ? "array" : typeof r;
  const o = { t: t, s: [], b: false };
  if (t === "string") o.s = Array.from(Buffer.from(r, "utf8"));
  if (t === "boolean") o.b = r;
  if (t === "number") o.s = Array.from(Buffer.from(String(r), "utf8"));
  return o;
}

async function load() {
  if (mode === "global") {
    require(path.join(dir, "wasm_exec.js"));
    const go = new Go();
    const buf = fs.readFileSync(path.join(dir, "otp.wasm"));
    const { instance } = await WebAssembly.instantiate(buf, go.importObject);
    go.run(instance);
    for (let i = 0; i < 500 && typeof globalThis.generateHOTP !== "function"; i++) await new Promise(r => setTimeout(r, 10));
    return name => globalThis[name];
  }
  const init = require(path.join(dir, "src", "index.js"));
  const pkg = await init();
  return name => pkg[name];
}

(async () => {
  let get;
  const lines = fs.readFileSync(inFile, "utf8").split("\n").filter(x => x.trim() !== "");
  try { get = await load(); } catch (e) {
    // the freshly built module (or the package's entry module) refuses to initialise: every call is unanswered.
    // (The orchestrator has built otp.wasm and copied the loader files itself, so this is the binding's doing.)
    process.stderr.write("load failed: " + e + "\n");
    const out = fs.openSync(outFile, "w");
    for (const line of lines) {
      const sc = JSON.parse(line);
      fs.writeSync(out, JSON.stringify({ id: sc.id, ret: { t: "loadfail", s: Array.from(Buffer.from(String(e), "utf8")).slice(0, 200), b: false }, threw: true }) + "\n");
    }
    fs.closeSync(out);
    process.exit(0);
  }
  const out = fs.openSync(outFile, start > 0 ? "a" : "w");
  for (let li = start; li < lines.length; li++) {
    const line = lines[li];
    const sc = JSON.parse(line);
    const res = { id: sc.id, ret: { t: "missing", s: [], b: false }, threw: false };
    const f = get(sc.fn);
    if (typeof f !== "function") {
      res.ret = { t: "nofunction", s: [], b: false };
    } else {
      try {
        res.ret = encodeRet(f.apply(null, sc.args.map(decodeArg)));
      } catch (e) {
        res.threw = true;
        res.ret = { t: "exception", s: Array.from(Buffer.from(String(e), "utf8")).slice(0, 300), b: false };
      }
    }
    fs.writeSync(out, JSON.stringify(res) + "\n");
  }
  fs.closeSync(out);
  process.exit(0);
})();
