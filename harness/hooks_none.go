//go:build !verif

package main

import "sync"

const hookMode = "none"

type abortCall struct{}

type obsStateNone struct {
	script func(slot int, key, msg []byte) []byte
	off    bool
	limit  int
}

var obs obsStateNone

func installHooks()                   {}
func obsBegin(limit int)              {}
func obsEnd() ([]Mac, int)            { return []Mac{}, -1 }
func pools() (*sync.Pool, *sync.Pool) { return nil, nil }

func scriptingAvailable() bool { return false }

func withScript(sum []byte, fn func() Event) Event { return fn() }
