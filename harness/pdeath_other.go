//go:build !linux

package main

import "os/exec"

func childDiesWithUs(cmd *exec.Cmd) {}
