package main

import (
	"fmt"
	"time"
)

var allDigits = []uint8{0, 1, 2, 3, 4, 5, 6, 7, 8, 9, 10, 11, 12, 100, 255}
var okDigits = []uint8{1, 2, 3, 4, 5, 6, 7, 8, 9, 10}
var allAlgs = []uint8{0, 1, 2, 3, 4, 255}

// ---------------- C01 ----------------
func scenC01(c *ctx) {
	keys := c.keyClasses()
	// grid: every key class x every digit count x every hash at a few counters
	for ki, key := range keys {
		if c.quick() && ki%3 != 2 && ki > 12 {
			continue
		}
		sec := c.someSpelling(key)
		for _, d := range allDigits {
			for _, a := range allAlgs {
				if c.quick() && (d > 11 || a > 3) && ki > 3 {
					continue
				}
				ctr := c.someCounter()
				c.rec.Emit(doGenerateHOTP(fmt.Sprintf("C01/grid/k%d/d%d/a%d", ki, d, a), sec, ctr, P{Digits: d, Alg: a}))
			}
		}
	}
	// counter anchors x digits with a fixed key per hash
	for _, a := range []uint8{0, 1, 2} {
		key := c.randBytes(20 + 12*int(a))
		for _, anc := range ctrAnchors {
			for off := -2; off <= 2; off++ {
				if c.quick() && off != 0 && anc > 1<<32 && anc != 1<<63 {
					continue
				}
				d := okDigits[c.rng.Intn(len(okDigits))]
				ctr := anc + uint64(int64(off))
				c.rec.Emit(doGenerateHOTP(fmt.Sprintf("C01/anchor/%d%+d/a%d", anc, off, a), b32(key), ctr, P{Digits: d, Alg: a}))
			}
		}
	}
	// thin slices of the counter space: one byte 0xFF / 0x00 among the others, low or high half zero, powers of two
	// and their predecessors
	{
		var pats []uint64
		for b := uint(0); b < 8; b++ {
			pats = append(pats, uint64(0xFF)<<(8*b), ^(uint64(0xFF) << (8 * b)), uint64(0x80)<<(8*b), uint64(1)<<(8*b)-1)
		}
		pats = append(pats, 0x00000001_00000000, 0xFFFFFFFF_00000000, 0x00000000_FFFFFFFF, 0x12345678_00000000, 0x0101010101010101, 0x8080808080808080, 0xFEFEFEFEFEFEFEFE)
		for i, ctr := range pats {
			key := c.someKey()
			a := uint8(i % 3)
			c.rec.Emit(doGenerateHOTP(fmt.Sprintf("C01/bytepat/%d/%x", i, ctr), b32(key), ctr, P{Digits: okDigits[c.rng.Intn(len(okDigits))], Alg: a}))
		}
	}
	// codes with five to seven leading zeros (see zeroRich)
	for i, z := range zeroRich {
		c.rec.Emit(doGenerateHOTP(fmt.Sprintf("C01/zeros/%d", i), b32(zeroRichKey), z.Ctr, P{Digits: uint8(z.D), Alg: uint8(z.Alg)}))
	}
	// nil parameter
	for i := 0; i < c.n(30, 300); i++ {
		key := c.someKey()
		c.rec.Emit(doGenerateHOTP(fmt.Sprintf("C01/nil/%d", i), c.someSpelling(key), c.someCounter(), P{Nil: true}))
	}
	// back-to-back calls that differ in exactly ONE argument (hash, digits, counter, secret, nil/explicit): whatever an
	// implementation remembers between calls must be keyed by all of them
	for i := 0; i < c.n(25, 400); i++ {
		key := c.someKey()
		key2 := append([]byte{}, key...)
		if len(key2) > 0 {
			key2[len(key2)-1] ^= 1
		} else {
			key2 = []byte{1}
		}
		ctr := c.someCounter()
		d := okDigits[c.rng.Intn(len(okDigits))]
		a := uint8(c.rng.Intn(3))
		seq := []struct {
			k   []byte
			c   uint64
			d   uint8
			a   uint8
			nil bool
		}{{key, ctr, d, a, false}, {key, ctr, d, (a + 1) % 3, false}, {key, ctr, d, a, false}, {key, ctr, okDigits[(int(d)+3)%len(okDigits)], a, false},
			{key, ctr + 1, d, a, false}, {key, ctr, d, a, false}, {key2, ctr, d, a, false}, {key, ctr, 6, 0, true}, {key, ctr, d, a, false},
			{key[:len(key)/2], ctr, d, a, false}, {key, ctr, d, (a + 2) % 3, false}, {key, ctr ^ (1 << 40), d, a, false}, {key, ctr, d, a, false}}
		for k, x := range seq {
			c.rec.Emit(doGenerateHOTP(fmt.Sprintf("C01/sib/%d/%d", i, k), b32(x.k), x.c, P{Nil: x.nil, Digits: x.d, Alg: x.a}))
		}
	}
	// random
	for i := 0; i < c.n(1500, 60000); i++ {
		key := c.someKey()
		d := okDigits[c.rng.Intn(len(okDigits))]
		if c.rng.Intn(12) == 0 {
			d = allDigits[c.rng.Intn(len(allDigits))]
		}
		a := uint8(c.rng.Intn(3))
		if c.rng.Intn(15) == 0 {
			a = allAlgs[c.rng.Intn(len(allAlgs))]
		}
		c.rec.Emit(doGenerateHOTP(fmt.Sprintf("C01/rnd/%d", i), c.someSpelling(key), c.someCounter(), P{Digits: d, Alg: a}))
	}
	// scripted digests: with the HMAC constructor swapped (verif hook) the digest is CHOSEN, so every truncation
	// offset and the boundary values of the 31-bit number run end to end through the public API
	c.scriptedDigests()
	// undecodable secrets never give a code
	for i, bad := range []string{"1", "A", "ABC", "ABCDEF", "AB=CD", "A!AAAAAA", "01234567", "MZXW6YT!", "AAAAAAAA8"} {
		c.rec.Emit(doGenerateHOTP(fmt.Sprintf("C01/badsecret/%d", i), bad, uint64(i), P{Digits: 6}))
	}
}

// ---------------- C02 ----------------
var periods = []uint64{0, 1, 2, 29, 30, 31, 59, 60, 3600, 86400, 1<<31 - 1, 1 << 31, 1 << 32}

func scenC02(c *ctx) {
	id := 0
	emit := func(tag string, key []byte, sec int64, variant int, p P) {
		id++
		c.rec.Emit(doGenerateTOTP(fmt.Sprintf("C02/%s/%d", tag, id), b32(key), c.instant(sec, variant), p))
	}
	// step boundaries: k*p + {-2..2}, every variant of the instant
	for _, per := range periods {
		eff := per
		if eff == 0 {
			eff = 30
		}
		key := c.someKey()
		ks := []uint64{0, 1, 2, 1000, uint64(1700000000) / eff, (1<<62 - 1) / eff}
		for _, k := range ks {
			if k > (1<<62-1)/eff {
				continue
			}
			base := int64(k * eff)
			for off := int64(-2); off <= 2; off++ {
				sec := base + off
				if sec < 0 || sec >= 1<<62 {
					continue
				}
				d := okDigits[c.rng.Intn(len(okDigits))]
				a := uint8(c.rng.Intn(3))
				for v := 0; v < c.n(2, 6); v++ {
					vv := v
					if c.quick() {
						vv = c.rng.Intn(6)
					}
					emit(fmt.Sprintf("bnd/p%d/k%d%+d/v%d", per, k, off, vv), key, sec, vv, P{Digits: d, Alg: a, Period: per})
				}
			}
		}
	}
	// thin slices: periods that are powers of two (or one off), instants at exact multiples of period*2^k (+-1),
	// instants around 2^31, 2^32, 2^53, 2^61
	for _, per := range []uint64{2, 4, 8, 16, 32, 64, 128, 256, 1024, 4096, 65536, 1 << 20, 1 << 24, 1<<16 - 1, 1<<16 + 1, 3, 7, 10, 100, 1000} {
		key := c.someKey()
		for _, sh := range []uint{0, 1, 8, 16, 31, 32} {
			base := per << sh
			if base >= 1<<61 || (c.quick() && sh%16 == 1) {
				continue
			}
			for _, off := range []int64{-1, 0, 1} {
				if sec := int64(base) + off; sec >= 0 {
					emit(fmt.Sprintf("pow2/p%d/s%d%+d", per, sh, off), key, sec, int(sh), P{Digits: okDigits[c.rng.Intn(len(okDigits))], Alg: uint8(c.rng.Intn(3)), Period: per})
				}
			}
		}
	}
	for _, anc := range []int64{1 << 31, 1 << 32, 1 << 53, 1 << 61} {
		for _, per := range []uint64{0, 30, 60, 7, 1 << 16} {
			for off := int64(-1); off <= 1; off++ {
				emit(fmt.Sprintf("tanchor/%d%+d/p%d", anc, off, per), c.someKey(), anc+off, int(off+1), P{Digits: 8, Alg: uint8(per % 3), Period: per})
			}
		}
	}
	for i, z := range zeroRich {
		emit("zeros", zeroRichKey, int64(z.Ctr*30)+int64(i%30), i, P{Digits: uint8(z.D), Alg: uint8(z.Alg), Period: 30})
	}
	// nil parameter = SHA1, 6 digits, 30 s
	for i := 0; i < c.n(40, 400); i++ {
		emit("nil", c.someKey(), c.rng.Int63n(1<<40), i, P{Nil: true})
	}
	// back-to-back calls that differ in exactly one argument (hash, digits, period, instant, secret)
	for i := 0; i < c.n(25, 400); i++ {
		key := c.someKey()
		sec := c.rng.Int63n(1 << 40)
		d := okDigits[c.rng.Intn(len(okDigits))]
		a := uint8(c.rng.Intn(3))
		for k, p := range []P{{Digits: d, Alg: a, Period: 30}, {Digits: d, Alg: (a + 1) % 3, Period: 30}, {Digits: d, Alg: a, Period: 30}, {Digits: d, Alg: a, Period: 60},
			{Digits: d, Alg: a, Period: 0}, {Digits: okDigits[(int(d)+2)%len(okDigits)], Alg: a, Period: 30}, {Nil: true}, {Digits: d, Alg: a, Period: 30}} {
			emit(fmt.Sprintf("sib%d", k), key, sec, k, p)
			if k%3 == 2 {
				emit(fmt.Sprintf("sibt%d", k), key, sec+30, k, p)
			}
		}
	}
	// period larger than the time, period 1
	for i := 0; i < c.n(30, 300); i++ {
		sec := c.rng.Int63n(100000)
		emit("pgt", c.someKey(), sec, i, P{Digits: 6, Alg: uint8(i % 3), Period: uint64(sec) + 1 + uint64(c.rng.Intn(5))})
		emit("p1", c.someKey(), c.rng.Int63n(1<<62), i, P{Digits: 8, Alg: uint8(i % 3), Period: 1})
	}
	// random
	for i := 0; i < c.n(1200, 50000); i++ {
		per := periods[c.rng.Intn(len(periods))]
		if c.rng.Intn(2) == 0 {
			per = uint64(c.rng.Int63n(1 << uint(1+c.rng.Intn(32))))
		}
		sec := c.rng.Int63n(1 << uint(1+c.rng.Intn(62)))
		d := okDigits[c.rng.Intn(len(okDigits))]
		if c.rng.Intn(20) == 0 {
			d = allDigits[c.rng.Intn(len(allDigits))]
		}
		a := uint8(c.rng.Intn(3))
		if c.rng.Intn(25) == 0 {
			a = allAlgs[c.rng.Intn(len(allAlgs))]
		}
		emit("rnd", c.someKey(), sec, i, P{Digits: d, Alg: a, Period: per})
	}
	// out of the property's time domain (before the epoch, far future): only "returns normally" is demanded
	for i, sec := range []int64{-1, -30, -1 << 40, 1 << 62, 1<<63 - 1} {
		emit("outdom", c.someKey(), sec, i, P{Digits: 6, Period: 30})
	}
}

// ---------------- C03 ----------------
var skewsOK = []uint64{0, 1, 2, 3, 4, 5, 6, 7, 8, 9, 10} // every admitted window
var skewsRefused = []uint64{11, 12, 255, 1 << 32, 1 << 63, 1<<64 - 1}

func (c *ctx) hotpValidateCase(tag string, key []byte, secret string, ctr uint64, p P, dist int, edit string) Event {
	alg, _ := p.hotp()
	d := int(p.Digits)
	if p.Nil {
		d = 6
	}
	code := refHOTP(key, ctr+uint64(int64(dist)), d, alg)
	return doValidateHOTP(fmt.Sprintf("C03/%s/c%d/s%d/d%+d/%s", tag, ctr, p.Skew, dist, edit), secret, c.edit(code, edit), ctr, p)
}

func scenC03(c *ctx) {
	anchors := []uint64{0, 1, 2, 9, 10, 11, 1<<31 - 1, 1 << 31, 1 << 32, 1<<63 - 1, 1 << 63, 1<<63 + 1, 1<<63 + 11, 1<<64 - 1 - 13}
	for _, anc := range anchors {
		for _, s := range skewsOK {
			key := c.someKey()
			sec := c.someSpelling(key)
			d := []uint8{1, 6, 8, 9, 10}[c.rng.Intn(5)]
			a := uint8(c.rng.Intn(3))
			for dist := -int(s) - 3; dist <= int(s)+3; dist++ {
				if c.quick() && s > 3 && s < 9 && dist%2 != 0 {
					continue
				}
				c.rec.Emit(c.hotpValidateCase("win", key, sec, anc, P{Digits: d, Alg: a, Skew: s}, dist, "exact"))
			}
		}
	}
	// windows that cross a power of two (a carry into the next byte / word of the counter)
	for _, k := range []uint{8, 16, 24, 32, 40, 48, 56, 63} {
		for _, s := range []uint64{1, 3, 10} {
			key := c.someKey()
			sec := b32(key)
			base := uint64(1)<<k - 1
			for _, ctr := range []uint64{base - s + 1, base, base + 1, base + s} {
				for _, dist := range []int{-int(s), -1, 0, 1, int(s), int(s) + 1} {
					c.rec.Emit(c.hotpValidateCase(fmt.Sprintf("carry%d", k), key, sec, ctr, P{Digits: 6, Alg: uint8(k % 3), Skew: s}, dist, "exact"))
				}
			}
		}
	}
	// codes with five to seven leading zeros: accepted at their counter, and their neighbours' codes are not
	for i, z := range zeroRich {
		p := P{Digits: uint8(z.D), Alg: uint8(z.Alg), Skew: uint64(i % 2)}
		c.rec.Emit(c.hotpValidateCase("zeros", zeroRichKey, b32(zeroRichKey), z.Ctr, p, 0, "exact"))
		c.rec.Emit(c.hotpValidateCase("zeros", zeroRichKey, b32(zeroRichKey), z.Ctr+2, p, -2, "exact"))
		c.rec.Emit(c.hotpValidateCase("zeros", zeroRichKey, b32(zeroRichKey), z.Ctr, p, 0, "leadplus"))
	}
	// max counter with window 0 (c+s = 2^64-1 is inside the domain)
	for _, s := range []uint64{0, 1, 10} {
		key := c.someKey()
		ctr := uint64(1<<64-1) - s
		for dist := -int(s) - 2; dist <= int(s); dist++ {
			c.rec.Emit(c.hotpValidateCase("top", key, b32(key), ctr, P{Digits: 6, Alg: 0, Skew: s}, dist, "exact"))
		}
	}
	// edits of in-window codes
	for i := 0; i < c.n(40, 400); i++ {
		key := c.someKey()
		s := skewsOK[c.rng.Intn(len(skewsOK))]
		ctr := c.someCounter()
		if ctr > 1<<64-1-20 {
			ctr -= 40
		}
		d := []uint8{1, 6, 6, 8, 9, 10}[c.rng.Intn(6)]
		a := uint8(c.rng.Intn(3))
		for _, ed := range editKinds {
			dist := 0
			if s > 0 {
				dist = c.rng.Intn(2*int(s)+1) - int(s)
			}
			if int64(ctr)+int64(dist) < 0 && ctr < 100 {
				dist = 0
			}
			c.rec.Emit(c.hotpValidateCase(fmt.Sprintf("edit%d", i), key, c.someSpelling(key), ctr, P{Digits: d, Alg: a, Skew: s}, dist, ed))
		}
	}
	// codes with leading zeros: a string of the same length and numeric value but other bytes is not the code
	for i := 0; i < c.n(25, 300); i++ {
		key := c.someKey()
		d := okDigits[1+c.rng.Intn(len(okDigits)-1)]
		a := uint8(c.rng.Intn(3))
		s := uint64(c.rng.Intn(4))
		base := c.someCounter()>>2 + 50
		for try := uint64(0); try < 80; try++ {
			code := refHOTP(key, base+try, int(d), int(a))
			if code == "" || code[0] != '0' {
				continue
			}
			dist := 0
			if s > 0 {
				dist = c.rng.Intn(2*int(s)+1) - int(s)
			}
			ctr := base + try - uint64(int64(dist))
			for _, lead := range []string{"+", " ", "-", "\t"} {
				c.rec.Emit(doValidateHOTP(fmt.Sprintf("C03/lead/%d/%q", i, lead), b32(key), lead+code[1:], ctr, P{Digits: d, Alg: a, Skew: s}))
			}
			c.rec.Emit(doValidateHOTP(fmt.Sprintf("C03/lead/%d/exact", i), b32(key), code, ctr, P{Digits: d, Alg: a, Skew: s}))
			break
		}
	}
	// back-to-back calls on the same secret and counter that differ in ONE parameter (window, digits, hash):
	// each call is judged on its own parameters, whatever the previous call was
	for i := 0; i < c.n(20, 300); i++ {
		key := c.someKey()
		ctr := c.someCounter()>>2 + 30
		d0 := okDigits[c.rng.Intn(len(okDigits))]
		a0 := uint8(c.rng.Intn(3))
		skews := []uint64{3, 0, 10, 1, 0, 2, 5, 0}
		for k, s := range skews {
			dist := []int{1, 3, 1, 2, 0, -2, 4, -1}[k]
			d, a := d0, a0
			if k%3 == 2 {
				d = okDigits[c.rng.Intn(len(okDigits))]
			}
			if k%4 == 3 {
				a = uint8(c.rng.Intn(3))
			}
			code := refHOTP(key, ctr+uint64(int64(dist)), int(d0), int(a0))
			c.rec.Emit(doValidateHOTP(fmt.Sprintf("C03/sib/%d/%d", i, k), b32(key), code, ctr, P{Digits: d, Alg: a, Skew: s}))
		}
		for k := 0; k < 4; k++ {
			c.rec.Emit(doValidateHOTP(fmt.Sprintf("C03/sibnil/%d/%d", i, k), b32(key), refHOTP(key, ctr+uint64(k), 6, 0), ctr, P{Nil: k%2 == 0, Digits: 6, Skew: 0}))
		}
	}
	// parameter grid back to back: the same secret and counter under four parameter sets (two hashes x two code
	// lengths); every in-window code is submitted under its own set (accepted) and under each other set (refused),
	// so a result remembered from the previous call under a key that omits a parameter shows
	for i := 0; i < c.n(12, 200); i++ {
		key := c.someKey()
		ctr := c.someCounter()>>2 + 30
		a0 := uint8(c.rng.Intn(3))
		a1 := (a0 + 1 + uint8(c.rng.Intn(2))) % 3
		d0 := okDigits[c.rng.Intn(len(okDigits))]
		d1 := okDigits[c.rng.Intn(len(okDigits))]
		sets := []P{{Digits: d0, Alg: a0, Skew: 1}, {Digits: d0, Alg: a1, Skew: 1}, {Digits: d1, Alg: a0, Skew: 1}, {Digits: d1, Alg: a1, Skew: 1}}
		for x, p := range sets {
			for y, q := range sets {
				dist := (x + y) % 2
				code := refHOTP(key, ctr+uint64(dist), int(p.Digits), int(p.Alg))
				c.rec.Emit(doValidateHOTP(fmt.Sprintf("C03/sibgrid/%d/%d%d/own", i, x, y), b32(key), code, ctr, p))
				c.rec.Emit(doValidateHOTP(fmt.Sprintf("C03/sibgrid/%d/%d%d/other", i, x, y), b32(key), code, ctr, q))
			}
		}
	}
	// refused windows: even the exact code of the counter itself
	for _, s := range skewsRefused {
		for i := 0; i < 3; i++ {
			key := c.someKey()
			ctr := c.someCounter() >> 1
			ed := []string{"exact", "flip", "empty"}[i]
			c.rec.Emit(c.hotpValidateCase("refused", key, b32(key), ctr, P{Digits: 6, Alg: uint8(i), Skew: s}, 0, ed))
		}
	}
	// nil parameter: 6 digits, SHA-1, window 2
	for i := 0; i < c.n(10, 100); i++ {
		key := c.someKey()
		ctr := c.someCounter() >> 1
		for dist := -4; dist <= 4; dist++ {
			c.rec.Emit(c.hotpValidateCase("nil", key, c.someSpelling(key), ctr, P{Nil: true}, dist, "exact"))
		}
	}
	// unsupported digits / hashes, bad secrets
	for _, d := range []uint8{0, 11, 12, 255} {
		key := c.someKey()
		for _, code := range []string{"", "0", "000000", "00000000000", "000000000000"} {
			c.rec.Emit(doValidateHOTP(fmt.Sprintf("C03/baddigits/%d/%q", d, code), b32(key), code, 5, P{Digits: d, Skew: 1}))
		}
	}
	for _, a := range []uint8{3, 4, 255} {
		key := c.someKey()
		c.rec.Emit(doValidateHOTP(fmt.Sprintf("C03/badalg/%d", a), b32(key), "123456", 5, P{Digits: 6, Alg: a, Skew: 1}))
	}
	for i, bad := range []string{"1", "ABC", "AB=CD", "A!AAAAAA"} {
		c.rec.Emit(doValidateHOTP(fmt.Sprintf("C03/badsecret/%d", i), bad, "123456", 5, P{Digits: 6, Skew: 1}))
	}
	// random mixture
	for i := 0; i < c.n(500, 30000); i++ {
		key := c.someKey()
		s := uint64(c.rng.Intn(11))
		ctr := c.someCounter()
		if ctr > 1<<64-1-20 {
			ctr -= 40
		}
		dist := c.rng.Intn(2*int(s)+7) - int(s) - 3
		d := okDigits[c.rng.Intn(len(okDigits))]
		ed := "exact"
		if c.rng.Intn(4) == 0 {
			ed = editKinds[c.rng.Intn(len(editKinds))]
		}
		c.rec.Emit(c.hotpValidateCase("rnd", key, c.someSpelling(key), ctr, P{Digits: d, Alg: uint8(c.rng.Intn(3)), Skew: s}, dist, ed))
	}
}

// ---------------- C04 ----------------
func (c *ctx) totpValidateCase(tag string, key []byte, secret string, sec int64, variant int, p P, dist int, edit string) Event {
	alg, _, per := p.totp()
	d := int(p.Digits)
	if p.Nil {
		d = 6
	}
	step := uint64(sec) / per
	code := refHOTP(key, step+uint64(int64(dist)), d, alg)
	return doValidateTOTP(fmt.Sprintf("C04/%s/t%d/p%d/s%d/d%+d/%s", tag, sec, p.Period, p.Skew, dist, edit), secret, c.edit(code, edit), c.instant(sec, variant), p)
}

func scenC04(c *ctx) {
	pers := []uint64{0, 1, 30, 60, 3600, 1 << 32}
	for _, per := range pers {
		eff := per
		if eff == 0 {
			eff = 30
		}
		for _, s := range skewsOK {
			// steps: exactly s (window touches step 0), s+1, mid, large
			for _, n := range []uint64{s, s + 1, 1000 + s, uint64(1700000000)/eff + s, (1<<62-1)/eff - 20} {
				if n < s || n > (1<<62-1)/eff {
					continue
				}
				key := c.someKey()
				d := []uint8{1, 6, 8, 9, 10}[c.rng.Intn(5)]
				a := uint8(c.rng.Intn(3))
				off := uint64(c.rng.Int63n(int64(min64(eff, 1<<40))))
				sec := int64(n*eff + off)
				if sec >= 1<<62 || sec < 0 {
					sec = int64(n * eff)
				}
				for dist := -int(s) - 3; dist <= int(s)+3; dist++ {
					if c.quick() && (s > 2 && s < 10) && dist%3 != 0 {
						continue
					}
					if int64(n)+int64(dist) < 0 {
						continue
					}
					c.rec.Emit(c.totpValidateCase("win", key, b32(key), sec, c.rng.Intn(6), P{Digits: d, Alg: a, Skew: s, Period: per}, dist, "exact"))
				}
			}
		}
	}
	// step boundaries: a code validates exactly inside its own step with skew 0
	for _, per := range []uint64{0, 30, 60} {
		eff := per
		if eff == 0 {
			eff = 30
		}
		key := c.someKey()
		for _, k := range []uint64{1, 56666666} {
			for off := int64(-2); off <= 2; off++ {
				sec := int64(k*eff) + off
				for _, dist := range []int{-1, 0, 1} {
					c.rec.Emit(c.totpValidateCase("bnd", key, b32(key), sec, c.rng.Intn(6), P{Digits: 6, Alg: 1, Skew: 0, Period: per}, dist, "exact"))
				}
			}
		}
	}
	// edits
	for i := 0; i < c.n(25, 300); i++ {
		key := c.someKey()
		s := skewsOK[c.rng.Intn(len(skewsOK))]
		per := pers[c.rng.Intn(len(pers))]
		eff := per
		if eff == 0 {
			eff = 30
		}
		sec := int64((s+uint64(c.rng.Intn(100000)))*eff) + int64(c.rng.Intn(int(min64(eff, 1000))))
		if sec >= 1<<62 {
			continue
		}
		for _, ed := range editKinds {
			dist := 0
			if s > 0 {
				dist = c.rng.Intn(2*int(s)+1) - int(s)
			}
			c.rec.Emit(c.totpValidateCase(fmt.Sprintf("edit%d", i), key, c.someSpelling(key), sec, i, P{Digits: uint8([]int{6, 8, 10}[i%3]), Alg: uint8(i % 3), Skew: s, Period: per}, dist, ed))
		}
	}
	// codes with leading zeros: same numeric value, other bytes
	for i := 0; i < c.n(25, 300); i++ {
		key := c.someKey()
		d := okDigits[1+c.rng.Intn(len(okDigits)-1)]
		a := uint8(c.rng.Intn(3))
		s := uint64(c.rng.Intn(4))
		base := uint64(c.rng.Int63n(1<<30)) + 50
		for try := uint64(0); try < 80; try++ {
			code := refHOTP(key, base+try, int(d), int(a))
			if code == "" || code[0] != '0' {
				continue
			}
			dist := 0
			if s > 0 {
				dist = c.rng.Intn(2*int(s)+1) - int(s)
			}
			step := base + try - uint64(int64(dist))
			t := time.Unix(int64(step*30)+int64(c.rng.Intn(30)), 0)
			for _, lead := range []string{"+", " ", "-", "\t"} {
				c.rec.Emit(doValidateTOTP(fmt.Sprintf("C04/lead/%d/%q", i, lead), b32(key), lead+code[1:], t, P{Digits: d, Alg: a, Skew: s, Period: 30}))
			}
			c.rec.Emit(doValidateTOTP(fmt.Sprintf("C04/lead/%d/exact", i), b32(key), code, t, P{Digits: d, Alg: a, Skew: s, Period: 30}))
			break
		}
	}
	// back-to-back calls on the same secret and instant that differ in ONE parameter (skew, period, digits, hash)
	for i := 0; i < c.n(20, 300); i++ {
		key := c.someKey()
		step := uint64(c.rng.Int63n(1<<30)) + 50
		d0 := okDigits[c.rng.Intn(len(okDigits))]
		a0 := uint8(c.rng.Intn(3))
		t := time.Unix(int64(step*30)+int64(c.rng.Intn(30)), 0)
		skews := []uint64{3, 0, 10, 1, 0, 2, 5, 0}
		for k, s := range skews {
			dist := []int{1, 3, 1, 2, 0, -2, 4, -1}[k]
			d, a := d0, a0
			per := uint64(30)
			if k%3 == 2 {
				d = okDigits[c.rng.Intn(len(okDigits))]
			}
			if k%4 == 3 {
				a = uint8(c.rng.Intn(3))
			}
			if k == 5 {
				per = 0
			}
			code := refHOTP(key, step+uint64(int64(dist)), int(d0), int(a0))
			c.rec.Emit(doValidateTOTP(fmt.Sprintf("C04/sib/%d/%d", i, k), b32(key), code, t, P{Digits: d, Alg: a, Skew: s, Period: per}))
		}
		for k := 0; k < 4; k++ {
			c.rec.Emit(doValidateTOTP(fmt.Sprintf("C04/sibnil/%d/%d", i, k), b32(key), refHOTP(key, step+uint64(k), 6, 0), t, P{Nil: k%2 == 0, Digits: 6, Skew: 0, Period: 30}))
		}
	}
	// parameter grid back to back (as in C03): two hashes x two code lengths on the same secret and instant
	for i := 0; i < c.n(12, 200); i++ {
		key := c.someKey()
		step := uint64(c.rng.Int63n(1<<30)) + 50
		t := time.Unix(int64(step*30)+int64(c.rng.Intn(30)), 0)
		a0 := uint8(c.rng.Intn(3))
		a1 := (a0 + 1 + uint8(c.rng.Intn(2))) % 3
		d0 := okDigits[c.rng.Intn(len(okDigits))]
		d1 := okDigits[c.rng.Intn(len(okDigits))]
		sets := []P{{Digits: d0, Alg: a0, Skew: 1, Period: 30}, {Digits: d0, Alg: a1, Skew: 1, Period: 30}, {Digits: d1, Alg: a0, Skew: 1, Period: 30}, {Digits: d1, Alg: a1, Skew: 1, Period: 30}}
		for x, p := range sets {
			for y, q := range sets {
				dist := (x + y) % 2
				code := refHOTP(key, step+uint64(dist), int(p.Digits), int(p.Alg))
				c.rec.Emit(doValidateTOTP(fmt.Sprintf("C04/sibgrid/%d/%d%d/own", i, x, y), b32(key), code, t, p))
				c.rec.Emit(doValidateTOTP(fmt.Sprintf("C04/sibgrid/%d/%d%d/other", i, x, y), b32(key), code, t, q))
			}
		}
	}
	// refused skews: every submitted string, including the current step's own code, is refused
	for _, s := range skewsRefused {
		for i, ed := range []string{"exact", "flip", "empty"} {
			key := c.someKey()
			dist := 0
			if i == 1 {
				dist = 11
			}
			c.rec.Emit(c.totpValidateCase("refused", key, b32(key), 1700000000+int64(i), i, P{Digits: 6, Alg: uint8(i), Skew: s, Period: 30}, dist, ed))
		}
		// a code eleven steps away must not be accepted
		key := c.someKey()
		c.rec.Emit(c.totpValidateCase("refused11", key, b32(key), 1700000000, 0, P{Digits: 6, Skew: s, Period: 30}, 11, "exact"))
	}
	// nil parameter: 6 digits, SHA-1, 30 s, skew 0
	for i := 0; i < c.n(10, 100); i++ {
		key := c.someKey()
		sec := c.rng.Int63n(1 << 40)
		for dist := -2; dist <= 2; dist++ {
			if int64(uint64(sec)/30)+int64(dist) < 0 {
				continue
			}
			c.rec.Emit(c.totpValidateCase("nil", key, c.someSpelling(key), sec, i, P{Nil: true}, dist, "exact"))
		}
	}
	// unsupported digits / hashes / bad secrets
	for _, d := range []uint8{0, 11, 255} {
		key := c.someKey()
		for _, code := range []string{"", "000000", "00000000000"} {
			c.rec.Emit(doValidateTOTP(fmt.Sprintf("C04/baddigits/%d/%q", d, code), b32(key), code, time.Unix(1700000000, 0), P{Digits: d, Skew: 1, Period: 30}))
		}
	}
	for _, a := range []uint8{3, 255} {
		key := c.someKey()
		c.rec.Emit(doValidateTOTP(fmt.Sprintf("C04/badalg/%d", a), b32(key), "123456", time.Unix(1700000000, 0), P{Digits: 6, Alg: a, Skew: 1, Period: 30}))
	}
	for i, bad := range []string{"1", "ABC", "AB=CD", "A!AAAAAA"} {
		c.rec.Emit(doValidateTOTP(fmt.Sprintf("C04/badsecret/%d", i), bad, "123456", time.Unix(1700000000, 0), P{Digits: 6, Skew: 1, Period: 30}))
	}
	// random
	for i := 0; i < c.n(400, 30000); i++ {
		key := c.someKey()
		s := uint64(c.rng.Intn(11))
		per := periods[c.rng.Intn(len(periods))]
		eff := per
		if eff == 0 {
			eff = 30
		}
		maxN := (uint64(1)<<62 - 1) / eff
		if maxN < s+30 {
			continue
		}
		n := s + uint64(c.rng.Int63n(int64(min64(maxN-s-20, 1<<50))))
		sec := int64(n * eff)
		dist := c.rng.Intn(2*int(s)+7) - int(s) - 3
		if int64(n)+int64(dist) < 0 {
			dist = 0
		}
		d := okDigits[c.rng.Intn(len(okDigits))]
		ed := "exact"
		if c.rng.Intn(4) == 0 {
			ed = editKinds[c.rng.Intn(len(editKinds))]
		}
		c.rec.Emit(c.totpValidateCase("rnd", key, c.someSpelling(key), sec, i, P{Digits: d, Alg: uint8(c.rng.Intn(3)), Skew: s, Period: per}, dist, ed))
	}
}

func min64(a, b uint64) uint64 {
	if a < b {
		return a
	}
	return b
}

var dtValues = []uint32{0, 1, 9, 10, 99, 100, 999, 1000, 99999, 100000, 999999, 1000000, 9999999, 10000000, 99999999, 100000000, 999999999, 1000000000,
	1410065407, 1410065408, 2147483647, 2147483646, 1284755224, 1000000007, 2000000000, 123456789, 1073741824}

func (c *ctx) scriptedDigests() {
	if !scriptingAvailable() {
		return
	}
	id := 0
	for _, size := range []int{20, 32, 64} {
		alg := map[int]uint8{20: 0, 32: 1, 64: 2}[size]
		for off := 0; off < 16; off++ {
			for vi, v := range dtValues {
				if c.quick() && (off+vi)%4 != 0 {
					continue
				}
				for _, top := range []uint32{0, 1 << 31} {
					sum := c.randBytes(size)
					sum[size-1] = sum[size-1]&0xF0 | byte(off)
					w := v | top
					sum[off], sum[off+1], sum[off+2], sum[off+3] = byte(w>>24), byte(w>>16), byte(w>>8), byte(w)
					d := okDigits[c.rng.Intn(len(okDigits))]
					if vi%3 == 0 {
						d = uint8(1 + (vi+off)%10)
					}
					key := c.randBytes(20)
					ctr := c.someCounter()
					id++
					e := withScript(sum, func() Event {
						return doGenerateHOTP(fmt.Sprintf("C01/script/l%d/o%d/v%d/t%d/%d", size, off, v, top>>31, id), b32(key), ctr, P{Digits: d, Alg: alg})
					})
					// only if the library really obtained its digest from the scripted constructor (a refactoring may
					// bypass the constructor table): then HMAC(key, counter) = the scripted digest is what it was given
					if e.MacN < 1 || len(e.Mac) == 0 || string(e.Mac[0].Sum) != string(sum) {
						continue
					}
					e.Orc = []Mac{{Alg: int(alg), Key: B(key), Msg: W64(ctr), Sum: B(sum)}}
					c.rec.Emit(e)
				}
			}
		}
	}
}
