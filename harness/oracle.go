package main

import (
	"crypto/hmac"
	"crypto/sha1"
	"crypto/sha256"
	"crypto/sha512"
	"encoding/base32"
	"hash"
	"strings"
)

// Oracle side of the harness: crypto/hmac evaluated on what the HARNESS believes key and message
// are.  The specification looks entries up by the key/message IT computes, so a wrong belief here
// yields a miss (inconclusive), never a verdict.

func hashOf(alg int) func() hash.Hash {
	switch alg {
	case 0:
		return sha1.New
	case 1:
		return sha256.New
	case 2:
		return sha512.New
	}
	return nil
}

func hmacSum(alg int, key, msg []byte) []byte {
	h := hashOf(alg)
	if h == nil {
		return nil
	}
	m := hmac.New(h, key)
	m.Write(msg)
	return m.Sum(nil)
}

// lenientKey is the harness' guess of the key bytes of a secret text.
func lenientKey(text string) ([]byte, bool) {
	t := strings.Trim(text, " \t\r\n")
	t = strings.TrimRight(t, "=")
	up := make([]byte, len(t))
	for i := 0; i < len(t); i++ {
		c := t[i]
		if c >= 'a' && c <= 'z' {
			c -= 32
		}
		up[i] = c
	}
	b, err := base32.StdEncoding.WithPadding(base32.NoPadding).DecodeString(string(up))
	if err != nil {
		return nil, false
	}
	return b, true
}

type orcSet struct {
	list []Mac
	seen map[string]bool
}

func (o *orcSet) add(alg int, key, msg []byte) {
	if alg < 0 || alg > 2 {
		return
	}
	k := string(rune(alg)) + "|" + string(key) + "|" + string(msg)
	if o.seen == nil {
		o.seen = map[string]bool{}
	}
	if o.seen[k] {
		return
	}
	o.seen[k] = true
	o.list = append(o.list, Mac{Alg: alg, Key: B(append([]byte{}, key...)), Msg: B(append([]byte{}, msg...)), Sum: B(hmacSum(alg, key, msg))})
}

func (o *orcSet) entries() []Mac {
	if o.list == nil {
		return []Mac{}
	}
	return o.list
}

// counterWindow adds the digests of counters c-w .. c+w (wrapping) for the given key.
func (o *orcSet) counterWindow(alg int, key []byte, c uint64, w int) {
	for i := -w; i <= w; i++ {
		o.add(alg, key, W64(c+uint64(int64(i))))
	}
}

func b32(b []byte) string { return base32.StdEncoding.EncodeToString(b) }
func b32np(b []byte) string {
	return base32.StdEncoding.WithPadding(base32.NoPadding).EncodeToString(b)
}
