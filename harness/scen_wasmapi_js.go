//go:build js && wasm

package main

import (
	"fmt"
	"os"

	"github.com/ja7ad/otp"
)

// The exported functions that exist only in the js/wasm build of the library (the engine behind the JavaScript
// binding): DeriveRFC4226Wasm and ValidateOTPWasm, called through the Go API with the harness itself compiled
// for js/wasm and run under Node. A call that never returns cannot be interrupted in a single-threaded wasm
// process, so every call is announced on stderr first ("WAPI-BEGIN <key>"): the orchestrator attributes a
// process that stops answering to the last call announced.

func dclsOf(d int) int {
	if d >= 1 && d <= 10 {
		return d
	}
	return 0
}

func doDeriveWasm(scn string, key []byte, ctr uint64, digits int, alg uint8) Event {
	e := newEvent("DeriveWasm", scn)
	e.Secret, e.Ctr = S(b32(key)), W64(ctr)
	e.Alg = int(alg)
	e.X = map[string]any{"dcls": dclsOf(digits), "digits": fmt.Sprint(digits)}
	var o orcSet
	o.add(int(alg), key, W64(ctr))
	e.Orc = o.entries()
	fmt.Fprintln(os.Stderr, "WAPI-BEGIN", scn)
	invoke(&e, func() result {
		s, err := otp.DeriveRFC4226Wasm(key, ctr, digits, otp.Algorithm(alg))
		if len(s) > 64 {
			s = s[:64] // out-of-domain lengths may give long text; only "returned" matters there
		}
		return result{val: []byte(s), err: err, ret: s}
	})
	return e
}

func doValidateWasm(scn, code string, key []byte, ctr uint64, digits uint8, alg uint8) Event {
	e := newEvent("ValidateWasm", scn)
	e.Secret, e.Code, e.Ctr = S(b32(key)), S(code), W64(ctr)
	e.Alg, e.Digits = int(alg), int(digits)
	e.X = map[string]any{"dcls": dclsOf(int(digits))}
	var o orcSet
	o.add(int(alg), key, W64(ctr))
	e.Orc = o.entries()
	fmt.Fprintln(os.Stderr, "WAPI-BEGIN", scn)
	invoke(&e, func() result {
		ok, err := otp.ValidateOTPWasm(code, key, ctr, otp.Digits(digits), otp.Algorithm(alg))
		return result{ok: ok, err: err}
	})
	return e
}

func scenWAPI(c *ctx) {
	// every code length class x every hash value class, cheap ones first
	lens := []int{6, 8, 1, 2, 3, 4, 5, 7, 9, 10, 0, -1, 11, 12, 19, 20, 21, 25, 64, 255, 256, 1000, -1 << 31, -1 << 63, 1 << 16, 1 << 20,
		1 << 24, 1<<31 - 1, 1 << 31, 1 << 32, 1 << 40, 1<<63 - 1}
	id := 0
	for _, d := range lens {
		for _, a := range []uint8{0, 1, 2, 3, 255} {
			if d > 1<<20 && a != 0 {
				continue
			}
			id++
			c.rec.Emit(doDeriveWasm(fmt.Sprintf("WAPI/derive/d%d/a%d/%d", d, a, id), c.someKey(), c.someCounter(), d, a))
		}
	}
	// codes with five to seven leading zeros
	for i, z := range zeroRich {
		id++
		c.rec.Emit(doDeriveWasm(fmt.Sprintf("WAPI/derive/zeros/%d", i), zeroRichKey, z.Ctr, z.D, uint8(z.Alg)))
		c.rec.Emit(doValidateWasm(fmt.Sprintf("WAPI/validate/zeros/%d", i), refHOTP(zeroRichKey, z.Ctr, z.D, z.Alg), zeroRichKey, z.Ctr, uint8(z.D), uint8(z.Alg)))
	}
	// in-domain grid and one-argument-differs sequences
	for i := 0; i < c.n(150, 3000); i++ {
		key := c.someKey()
		ctr := c.someCounter()
		d := 1 + c.rng.Intn(10)
		a := uint8(c.rng.Intn(3))
		id++
		c.rec.Emit(doDeriveWasm(fmt.Sprintf("WAPI/derive/rnd/%d", id), key, ctr, d, a))
		if i%5 == 0 {
			for k, a2 := range []uint8{(a + 1) % 3, a, (a + 2) % 3, a} {
				c.rec.Emit(doDeriveWasm(fmt.Sprintf("WAPI/derive/sib/%d/%d", id, k), key, ctr, d, a2))
			}
			c.rec.Emit(doDeriveWasm(fmt.Sprintf("WAPI/derive/sib/%d/d", id), key, ctr, 1+(d+3)%10, a))
			c.rec.Emit(doDeriveWasm(fmt.Sprintf("WAPI/derive/sib/%d/c", id), key, ctr+1, d, a))
			c.rec.Emit(doDeriveWasm(fmt.Sprintf("WAPI/derive/sib/%d/back", id), key, ctr, d, a))
		}
	}
	// validation: the code of the counter, of its neighbours, edits; every Digits value once
	for i := 0; i < c.n(150, 3000); i++ {
		key := c.someKey()
		ctr := c.someCounter()>>1 + 1
		d := uint8(1 + c.rng.Intn(10))
		a := uint8(c.rng.Intn(3))
		code := refHOTP(key, ctr, int(d), int(a))
		id++
		for k, cd := range []string{code, refHOTP(key, ctr+1, int(d), int(a)), refHOTP(key, ctr-1, int(d), int(a)), c.edit(code, "flip"), c.edit(code, "droplast"),
			c.edit(code, "append0"), "", code} {
			c.rec.Emit(doValidateWasm(fmt.Sprintf("WAPI/validate/%d/%d", id, k), cd, key, ctr, d, a))
		}
		c.rec.Emit(doValidateWasm(fmt.Sprintf("WAPI/validate/%d/alg", id), code, key, ctr, d, (a+1)%3))
		c.rec.Emit(doValidateWasm(fmt.Sprintf("WAPI/validate/%d/badalg", id), code, key, ctr, d, 3+uint8(c.rng.Intn(250))))
	}
	for d := 0; d < 256; d++ {
		if c.quick() && d > 12 && d%29 != 0 && d != 255 {
			continue
		}
		key := c.someKey()
		for k, cd := range []string{"", "0", "000000", string(make([]byte, d)), fmt.Sprintf("%0*d", d, 0)} {
			id++
			c.rec.Emit(doValidateWasm(fmt.Sprintf("WAPI/validate/digits%d/%d/%d", d, k, id), cd, key, uint64(d), uint8(d), uint8(d%3)))
		}
	}
}

func init() { scenarios["WAPI"] = scenWAPI }
