package main

import (
	"fmt"
	"runtime"
	"strings"
	"sync"
	"sync/atomic"
	"time"

	"github.com/ja7ad/otp"
)

// ---------------- C11: free-running tier ----------------
// A plan of mixed calls is executed once alone (one goroutine, quiet process) and then concurrently on
// 1..64 goroutines x GOMAXPROCS 1..16 with forced collections and - when the verif hook exists - an
// adversary that takes buffers from the library's pools, overwrites them and puts them back. Every
// concurrent result is compared by the trace specification with the solo result of the same plan entry,
// and all results with the functional specification.
type planned struct {
	run func(scn string) Event
}

func (c *ctx) buildPlan(n int) []planned {
	var plan []planned
	names := listSuites()
	for i := 0; i < n; i++ {
		key := c.someKey()
		secret := c.someSpelling(key)
		ctr := c.someCounter() >> 1
		d := okDigits[c.rng.Intn(len(okDigits))]
		a := uint8(c.rng.Intn(3))
		t := time.Unix(c.rng.Int63n(1<<40), int64(c.rng.Intn(1000000000)))
		s := uint64(c.rng.Intn(4))
		switch c.rng.Intn(10) {
		case 0, 1:
			plan = append(plan, planned{func(scn string) Event { return doGenerateHOTP(scn, secret, ctr, P{Digits: d, Alg: a}) }})
		case 2:
			plan = append(plan, planned{func(scn string) Event { return doGenerateTOTP(scn, secret, t, P{Digits: d, Alg: a, Period: 30}) }})
		case 3:
			code := refHOTP(key, ctr+uint64(c.rng.Intn(3)), int(d), int(a))
			plan = append(plan, planned{func(scn string) Event { return doValidateHOTP(scn, secret, code, ctr, P{Digits: d, Alg: a, Skew: s}) }})
		case 4:
			code := refHOTP(key, uint64(t.Unix())/30, int(d), int(a))
			plan = append(plan, planned{func(scn string) Event {
				return doValidateTOTP(scn, secret, code, t, P{Digits: d, Alg: a, Skew: s, Period: 30})
			}})
		case 5, 6, 7:
			// OCRA with messages shorter and longer than the pooled buffer
			var sa suiteArg
			if c.rng.Intn(2) == 0 && len(names) > 0 {
				x, err := rawSuiteArg(c.pickName(names))
				if err != nil {
					continue
				}
				sa = x
			} else {
				raw := c.randBytes([]int{0, 20, 100, 130, 260, 400}[c.rng.Intn(6)])
				sa = cfgSuiteArg(c.handBuilt(c.rng.Intn(32), c.rng.Intn(3), 4+c.rng.Intn(7), raw))
			}
			in := c.admissibleInput(sa.su.Cfg, i)
			if c.rng.Intn(3) == 0 {
				g := doGenerateOCRA("probe", secret, sa, in)
				code := string(g.Val)
				plan = append(plan, planned{func(scn string) Event { return doValidateOCRA(scn, secret, code, sa, in) }})
			} else {
				plan = append(plan, planned{func(scn string) Event { return doGenerateOCRA(scn, secret, sa, in) }})
			}
		case 8:
			name := c.grammarName()
			if len(names) > 0 && c.rng.Intn(2) == 0 {
				name = c.pickName(names)
			}
			plan = append(plan, planned{func(scn string) Event { return doNewRawSuite(scn, name, false) }})
		default:
			plan = append(plan, planned{func(scn string) Event { return doDecodeSecret(scn, secret) }})
		}
	}
	// bursts of OCRA calls that share ONE suite (a registered name, then one hand-built configuration) but have
	// different secrets and inputs: anything cached or shared per suite must not carry data between calls
	for b := 0; b < 3; b++ {
		var sa suiteArg
		if b%2 == 0 && len(names) > 0 {
			x, err := rawSuiteArg(c.pickName(names))
			if err != nil {
				continue
			}
			sa = x
		} else {
			sa = cfgSuiteArg(c.handBuilt(c.rng.Intn(32)|2, c.rng.Intn(3), 4+c.rng.Intn(7), c.randBytes([]int{0, 24, 140}[c.rng.Intn(3)])))
		}
		at := c.rng.Intn(len(plan) + 1)
		var burst []planned
		for k := 0; k < 16; k++ {
			key := c.someKey()
			secret := b32(key)
			in := c.admissibleInput(sa.su.Cfg, k)
			suite := sa
			burst = append(burst, planned{func(scn string) Event { return doGenerateOCRA(scn, secret, suite, in) }})
		}
		plan = append(plan[:at], append(burst, plan[at:]...)...)
	}
	// bursts: several goroutines ask for the same never-seen suite string / 9-10 digit codes at the same moment
	for b := 0; b < 4; b++ {
		name := c.grammarName()
		at := c.rng.Intn(len(plan) + 1)
		var burst []planned
		for k := 0; k < 8; k++ {
			burst = append(burst, planned{func(scn string) Event { return doNewRawSuite(scn, name, false) }})
		}
		key := c.someKey()
		secret := b32(key)
		for k := 0; k < 12; k++ {
			ctr := c.someCounter()
			d := uint8(9 + k%2)
			a := uint8(c.rng.Intn(3))
			burst = append(burst, planned{func(scn string) Event { return doGenerateHOTP(scn, secret, ctr, P{Digits: d, Alg: a}) }})
		}
		plan = append(plan[:at], append(burst, plan[at:]...)...)
	}
	return plan
}

func scenC11(c *ctx) {
	obs.off = true
	type cfg struct{ g, procs int }
	cfgs := []cfg{{1, 1}, {2, 1}, {2, 2}, {4, 4}, {8, 2}, {16, 16}, {64, 16}, {3, 16}, {32, 8}}
	if !c.quick() {
		cfgs = append(cfgs, cfg{64, 1}, cfg{64, 4}, cfg{8, 8}, cfg{48, 16}, cfg{5, 3}, cfg{16, 2}, cfg{24, 12})
	}
	rounds := c.n(1, 6)
	for round := 0; round < rounds; round++ {
		for ci, cf := range cfgs {
			plan := c.buildPlan(c.n(120, 400))
			tag := fmt.Sprintf("C11/r%d/g%d-p%d", round, cf.g, cf.procs)
			c.rec.Hold()
			// phase A: alone.  In every second configuration the concurrent phase runs FIRST (so that it meets
			// never-seen inputs: first-use races) and the solo run follows; the trace lists the solo events first.
			old := runtime.GOMAXPROCS(1)
			solo := make([]Event, len(plan))
			runSolo := func() {
				runtime.GOMAXPROCS(1)
				for i, p := range plan {
					e := p.run(fmt.Sprintf("%s/solo/%d", tag, i+1))
					e.Plan, e.Phase = i+1, "solo"
					solo[i] = e
				}
			}
			concFirst := ci%2 == 1
			if !concFirst {
				runSolo()
			}
			// phase B: the same plan concurrently
			runtime.GOMAXPROCS(cf.procs)
			evs := make([]Event, len(plan))
			var next int64
			var wg sync.WaitGroup
			stop := make(chan struct{})
			var bg sync.WaitGroup
			bg.Add(1)
			go func() { // collections empty the pools at arbitrary points
				defer bg.Done()
				for {
					select {
					case <-stop:
						return
					default:
						runtime.GC()
						time.Sleep(time.Duration(200+ci*50) * time.Microsecond)
					}
				}
			}()
			if pa, pb := pools(); pa != nil {
				bg.Add(1)
				go func() { // adversary: take buffers, overwrite, put back
					defer bg.Done()
					for {
						select {
						case <-stop:
							return
						default:
						}
						if x, ok := pa.Get().(*[8]byte); ok && x != nil {
							for i := range x {
								x[i] = 0xEE
							}
							pa.Put(x)
						}
						if x, ok := pb.Get().(*[]byte); ok && x != nil {
							full := (*x)[:cap(*x)]
							for i := range full {
								full[i] = 0xEE
							}
							pb.Put(x)
						}
						runtime.Gosched()
					}
				}()
			}
			for w := 0; w < cf.g; w++ {
				wg.Add(1)
				go func() {
					defer wg.Done()
					for {
						i := int(atomic.AddInt64(&next, 1)) - 1
						if i >= len(plan) {
							return
						}
						e := plan[i].run(fmt.Sprintf("%s/conc/%d", tag, i+1))
						e.Plan, e.Phase = i+1, "conc"
						evs[i] = e
					}
				}()
			}
			wg.Wait()
			close(stop)
			bg.Wait()
			if concFirst {
				runSolo()
			}
			runtime.GOMAXPROCS(old)
			for _, e := range solo {
				c.rec.Emit(e)
			}
			var kept, copies []string
			for _, e := range evs {
				c.rec.Emit(e)
				if e.ret != "" {
					kept = append(kept, e.ret)
					copies = append(copies, string(e.Val))
				}
			}
			// returned code strings must still read what they read when they were returned
			pr := newEvent("RetainedProbe", tag+"/retained")
			yMap(&pr)["retained11"] = map[string]any{"before": S(strings.Join(copies, "|")), "after": S(strings.Join(kept, "|"))}
			c.rec.Emit(pr)
			c.rec.Release()
		}
	}
	// concurrent secret generation meeting inside the (substituted) random source: a call's secret is made of the
	// bytes that call took, not of another call's
	c.randGated("C11", c.n(5, 40))
	obs.off = false
	_ = otp.SHA1
}
