//go:build verif

package main

import (
	"hash"
	"sync"

	"github.com/ja7ad/otp"
)

const hookMode = "verif"

// obsState collects what the library really feeds to and gets from HMAC during one call.
type obsState struct {
	mu     sync.Mutex
	on     bool
	off    bool // concurrent workloads: per-call observation is meaningless
	calls  []Mac
	n      int
	limit  int                                             // abort the call after this many constructions (0 = off)
	script func(slot int, key, msg []byte) []byte          // non-nil: scripted digests instead of real HMAC
	gate   func(ev string, slot int, h *obsHash, p []byte) // scheduler gate (C11)
}

var obs obsState
var realNew [8]func(key []byte) hash.Hash
var hooksInstalled bool

type obsHash struct {
	slot  int
	key   []byte
	msg   []byte
	inner hash.Hash
	idx   int
}

func (h *obsHash) Write(p []byte) (int, error) {
	if obs.gate != nil {
		obs.gate("write", h.slot, h, p)
	}
	h.msg = append(h.msg, p...)
	if h.inner != nil {
		h.inner.Write(p)
	}
	return len(p), nil
}

func (h *obsHash) Sum(b []byte) []byte {
	if obs.gate != nil {
		obs.gate("sum", h.slot, h, nil)
	}
	var sum []byte
	if obs.script != nil {
		sum = obs.script(h.slot, h.key, h.msg)
	} else {
		sum = h.inner.Sum(nil)
	}
	obs.mu.Lock()
	if obs.on && len(obs.calls) < 80 {
		obs.calls = append(obs.calls, Mac{Alg: h.slot, Key: B(append([]byte(nil), h.key...)),
			Msg: B(append([]byte(nil), h.msg...)), Sum: B(append([]byte(nil), sum...))})
	}
	obs.mu.Unlock()
	return append(b, sum...)
}
func (h *obsHash) Reset() {
	h.msg = h.msg[:0]
	if h.inner != nil {
		h.inner.Reset()
	}
}
func (h *obsHash) Size() int {
	if h.inner != nil {
		return h.inner.Size()
	}
	return 20
}
func (h *obsHash) BlockSize() int {
	if h.inner != nil {
		return h.inner.BlockSize()
	}
	return 64
}

type abortCall struct{}

func installHooks() {
	if hooksInstalled {
		return
	}
	hooksInstalled = true
	for slot := 0; slot < otp.VerifHMACSlots() && slot < len(realNew); slot++ {
		slot := slot
		realNew[slot] = otp.VerifSwapHMAC(slot, func(key []byte) hash.Hash {
			obs.mu.Lock()
			obs.n++
			n, limit := obs.n, obs.limit
			obs.mu.Unlock()
			if limit > 0 && n > limit {
				panic(abortCall{})
			}
			h := &obsHash{slot: slot, key: append([]byte(nil), key...), idx: n}
			if obs.script == nil {
				h.inner = realNew[slot](key)
			}
			if obs.gate != nil {
				obs.gate("new", slot, h, key)
			}
			return h
		})
	}
}

func obsBegin(limit int) {
	obs.mu.Lock()
	obs.on, obs.calls, obs.n, obs.limit = true, nil, 0, limit
	obs.mu.Unlock()
}

func obsEnd() ([]Mac, int) {
	obs.mu.Lock()
	defer obs.mu.Unlock()
	if !hooksInstalled || obs.off {
		obs.on = false
		return []Mac{}, -1
	}
	obs.on = false
	c := obs.calls
	if c == nil {
		c = []Mac{}
	}
	return c, obs.n
}

func pools() (*sync.Pool, *sync.Pool) { return otp.VerifPools() }

func scriptingAvailable() bool { return hooksInstalled }

// withScript runs fn while every HMAC evaluation returns the given digest.
func withScript(sum []byte, fn func() Event) Event {
	obs.script = func(slot int, key, msg []byte) []byte { return append([]byte{}, sum...) }
	defer func() { obs.script = nil }()
	return fn()
}
