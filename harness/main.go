package main

import (
	"encoding/json"
	"flag"
	"fmt"
	"math/rand"
	"os"
	"path/filepath"
	"regexp"
	"strings"
	"time"
)

var scenarios = map[string]func(*ctx){
	"C01": scenC01, "C02": scenC02, "C03": scenC03, "C04": scenC04, "C07": scenC07, "C13": scenC13,
	"C11": scenC11, "C08": scenC08, "C10": scenC10, "C12": scenC12, "C16": scenC16, "C17": scenC17,
	"C05": scenC05, "C06": scenC06, "C14": scenC14, "C15": scenC15,
}

func main() {
	// a harness whose parent (the check) has gone has no reader: stop, and with it every server / Node child
	// (they carry Pdeathsig)
	if pp := os.Getppid(); pp > 1 {
		go func() {
			for {
				time.Sleep(2 * time.Second)
				if os.Getppid() != pp {
					os.Exit(99)
				}
			}
		}()
	}
	if len(os.Args) < 2 {
		fmt.Fprintln(os.Stderr, "usage: harness gen|replay ...")
		os.Exit(2)
	}
	switch os.Args[1] {
	case "gen":
		cmdGen(os.Args[2:])
	default:
		if f, ok := extraCmds[os.Args[1]]; ok {
			f(os.Args[2:])
			return
		}
		fmt.Fprintln(os.Stderr, "unknown command", os.Args[1])
		os.Exit(2)
	}
}

var extraCmds = map[string]func([]string){}

// Fresh pass. The scenario generators put their history-sensitive sequences (calls that differ in one argument,
// a refused call followed by a good one, spellings a normalising memo would identify) after the bulk enumerations,
// i.e. after thousands of other calls. Whatever an implementation remembers between calls may by then be full
// (a bounded memo) or otherwise settled, and the sequences no longer show anything. In the fresh pass the same
// generator runs in a new process, but only the calls of those sequences (and the calls whose results they
// use) reach the library, so that they are its first calls. Their scenario keys carry the prefix "F:".
var (
	freshMode bool
	freshRe   = regexp.MustCompile(`sib|shift/|poison|near/|norm/|/seq|lead/|/fail/|C07/bad/|hist`)
)

func cmdGen(args []string) {
	fs := flag.NewFlagSet("gen", flag.ExitOnError)
	prop := fs.String("prop", "", "property id")
	tier := fs.String("tier", "quick", "quick|thorough")
	seed := fs.Int64("seed", 1, "seed")
	out := fs.String("out", "", "output directory")
	per := fs.Int("per-shard", 2500, "events per trace shard")
	only := fs.String("only", "", "replay: only the scenario with this key")
	fresh := fs.Bool("fresh", false, "fresh pass: execute only the history-sensitive sequences of the scenario")
	fs.Parse(args)
	freshMode = *fresh
	fn, ok := scenarios[*prop]
	if !ok {
		fmt.Fprintln(os.Stderr, "no scenario generator for", *prop)
		os.Exit(2)
	}
	installHooks()
	prefix := "trace"
	if freshMode {
		prefix = "fresh"
	}
	rec := NewRecorder(*out, prefix, *per)
	if *only != "" {
		rec.only = map[string]bool{}
		for _, k := range strings.Split(*only, "\x1f") {
			rec.only[k] = true
		}
	}
	c := &ctx{rng: rand.New(rand.NewSource(*seed)), rec: rec, tier: *tier, seed: *seed}
	fn(c)
	rec.Close()
	sum := map[string]any{"prop": *prop, "tier": *tier, "seed": *seed, "hook_mode": hookModeFull(), "events": rec.total,
		"files": rec.files, "samples": rec.Samples}
	data, _ := json.MarshalIndent(sum, "", " ")
	os.WriteFile(filepath.Join(*out, "gen.json"), data, 0o644)
	fmt.Printf("generated %d events in %d shard(s), hook mode %s\n", rec.total, len(rec.files), hookModeFull())
}
