//go:build linux

package main

import (
	"os/exec"
	"syscall"
)

// childDiesWithUs makes the kernel kill the child when this process dies, however it dies (a check that is itself
// killed by a time limit must not leave servers or Node processes behind).
func childDiesWithUs(cmd *exec.Cmd) {
	cmd.SysProcAttr = &syscall.SysProcAttr{Pdeathsig: syscall.SIGKILL}
}
