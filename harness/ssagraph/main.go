// ssagraph extracts, from the current tree, the information-flow graph that instantiates the TLA+
// specification Taint (property C09). It decides nothing: it emits nodes, flow edges, sources,
// comparison sites and sanitizer sites; TLC computes the taint fixpoint and checks NoLeak.
package main

import (
	"encoding/json"
	"flag"
	"fmt"
	"go/constant"
	"go/token"
	"go/types"
	"os"
	"sort"
	"strings"

	"golang.org/x/tools/go/callgraph"
	"golang.org/x/tools/go/callgraph/cha"
	"golang.org/x/tools/go/packages"
	"golang.org/x/tools/go/ssa"
	"golang.org/x/tools/go/ssa/ssautil"
)

var repoRoot string

type site struct {
	ID   int    `json:"id"`
	A    int    `json:"a"`
	B    int    `json:"b"`
	Kind string `json:"kind"`
	Pos  string `json:"pos"`
	Fn   string `json:"fn"`
}

type graph struct {
	Target     string   `json:"target"`
	N          int      `json:"n"`
	Succ       [][]int  `json:"succ"`
	SrcH       []int    `json:"srch"`
	SrcC       []int    `json:"srcc"`
	Compares   []site   `json:"compares"`
	Sanitizers []site   `json:"sanitizers"`
	Funcs      int      `json:"funcs"`
	Edges      int      `json:"edges"`
	SrcHPos    []string `json:"srchpos"`
	SrcCPos    []string `json:"srccpos"`
}

type builder struct {
	prog  *ssa.Program
	fset  *token.FileSet
	ids   map[any]int
	succ  map[int]map[int]bool
	g     graph
	own   func(*ssa.Function) bool
	cg    *callgraph.Graph
	rets  map[*ssa.Function]int
	srcH  map[int]bool
	srcC  map[int]bool
	edges int
}

func (b *builder) id(v any) int {
	if id, ok := b.ids[v]; ok {
		return id
	}
	id := len(b.ids) + 1
	b.ids[v] = id
	return id
}

func (b *builder) edge(from, to int) {
	if from == 0 || to == 0 || from == to {
		return
	}
	m := b.succ[from]
	if m == nil {
		m = map[int]bool{}
		b.succ[from] = m
	}
	if !m[to] {
		m[to] = true
		b.edges++
	}
}

func isConst(v ssa.Value) bool {
	_, ok := v.(*ssa.Const)
	return ok
}

func (b *builder) val(v ssa.Value) int {
	if v == nil || isConst(v) {
		return 0
	}
	switch v.(type) {
	case *ssa.Function, *ssa.Builtin:
		return 0
	}
	return b.id(v)
}

func (b *builder) pos(p token.Pos) string {
	if !p.IsValid() {
		return "?"
	}
	pp := b.fset.Position(p)
	f := pp.Filename
	if strings.HasPrefix(f, repoRoot+"/") {
		f = f[len(repoRoot)+1:]
	} else if i := strings.Index(f, "/repo/"); i >= 0 {
		f = f[i+6:]
	}
	return fmt.Sprintf("%s:%d", f, pp.Line)
}

var variableTime = map[string]bool{
	"bytes.Equal": true, "bytes.Compare": true, "bytes.HasPrefix": true, "bytes.HasSuffix": true, "bytes.Contains": true, "bytes.Index": true, "bytes.EqualFold": true,
	"strings.Compare": true, "strings.EqualFold": true, "strings.HasPrefix": true, "strings.HasSuffix": true, "strings.Contains": true, "strings.Index": true,
	"slices.Equal": true, "slices.Compare": true, "reflect.DeepEqual": true, "strings.EqualFold ": true,
}
var searchPkgs = map[string]bool{"strings": true, "bytes": true, "slices": true, "sort": true, "regexp": true, "reflect": true, "maps": true, "unicode/utf8": false}

var constantTime = map[string]bool{"crypto/subtle.ConstantTimeCompare": true, "crypto/hmac.Equal": true,
	"crypto/subtle.ConstantTimeByteEq": true, "crypto/subtle.ConstantTimeEq": true}

// functions known to write through an argument: index of destination -> indices of sources (-1 = all other args)
var outParams = map[string][2]int{
	"encoding/json.Unmarshal":                  {1, 0},
	"encoding/hex.Decode":                      {0, 1},
	"io.ReadFull":                              {1, 0},
	"(encoding/binary.bigEndian).PutUint64":    {0, 1},
	"(encoding/binary.bigEndian).PutUint32":    {0, 1},
	"(encoding/binary.littleEndian).PutUint64": {0, 1},
}

func calleeName(c *ssa.CallCommon) string {
	if c.IsInvoke() {
		return "invoke:" + c.Method.FullName()
	}
	switch f := c.Value.(type) {
	case *ssa.Function:
		if o := f.Origin(); o != nil {
			return o.String() // an instantiation of a generic function is named after the generic function
		}
		return f.String()
	case *ssa.Builtin:
		return "builtin:" + f.Name()
	}
	return ""
}

// originOf returns the called function, or for an instantiation the generic function it instantiates (whose
// package is known; an instance has none).
func originOf(v ssa.Value) (*ssa.Function, bool) {
	f, ok := v.(*ssa.Function)
	if !ok {
		return nil, false
	}
	if o := f.Origin(); o != nil {
		return o, true
	}
	return f, true
}

// fieldNodes maps field index -> node of the field address, for a struct value loaded from a local or global cell.
func fieldNodes(b *builder, v ssa.Value) map[int]int {
	out := map[int]int{}
	u, ok := v.(*ssa.UnOp)
	if !ok || u.Op != token.MUL {
		return out
	}
	refs := u.X.Referrers()
	if refs == nil {
		return out
	}
	for _, r := range *refs {
		if fa, ok := r.(*ssa.FieldAddr); ok {
			out[fa.Field] = b.val(fa)
		}
	}
	return out
}

// unfoldedXor finds x^y (both non-constant) from which v is computed by bitwise / conversion steps only.
func unfoldedXor(v ssa.Value, depth int) *ssa.BinOp {
	if depth > 6 {
		return nil
	}
	switch t := v.(type) {
	case *ssa.BinOp:
		if t.Op == token.XOR && !isConst(t.X) && !isConst(t.Y) {
			return t
		}
		switch t.Op {
		case token.OR, token.AND, token.XOR, token.SHL, token.SHR, token.ADD, token.SUB:
			if r := unfoldedXor(t.X, depth+1); r != nil {
				return r
			}
			return unfoldedXor(t.Y, depth+1)
		}
	case *ssa.Convert:
		return unfoldedXor(t.X, depth+1)
	case *ssa.ChangeType:
		return unfoldedXor(t.X, depth+1)
	}
	return nil
}

// inLoop reports whether the block can reach itself.
func inLoop(blk *ssa.BasicBlock) bool {
	seen := map[*ssa.BasicBlock]bool{}
	stack := append([]*ssa.BasicBlock{}, blk.Succs...)
	for len(stack) > 0 {
		n := stack[len(stack)-1]
		stack = stack[:len(stack)-1]
		if n == blk {
			return true
		}
		if seen[n] {
			continue
		}
		seen[n] = true
		stack = append(stack, n.Succs...)
	}
	return false
}

func isTextType(t types.Type) bool {
	switch u := t.Underlying().(type) {
	case *types.Basic:
		return u.Kind() == types.String
	case *types.Slice:
		if e, ok := u.Elem().Underlying().(*types.Basic); ok {
			return e.Kind() == types.Byte || e.Kind() == types.Uint8
		}
	}
	return false
}

func (b *builder) function(fn *ssa.Function) {
	b.g.Funcs++
	// sources: text parameters of exported functions of the analysed packages
	if fn.Object() != nil && fn.Object().Exported() && fn.Parent() == nil {
		recvExported := true
		if sig := fn.Signature; sig.Recv() != nil {
			t := sig.Recv().Type()
			if p, ok := t.(*types.Pointer); ok {
				t = p.Elem()
			}
			if n, ok := t.(*types.Named); ok {
				recvExported = n.Obj().Exported()
			}
		}
		if recvExported && fn.Pkg != nil && fn.Pkg.Pkg.Name() != "main" {
			for _, p := range fn.Params {
				if isTextType(p.Type()) {
					b.srcC[b.val(p)] = true
					b.g.SrcCPos = append(b.g.SrcCPos, fn.String()+"("+p.Name()+")")
				}
			}
		}
	}
	for _, blk := range fn.Blocks {
		for _, ins := range blk.Instrs {
			b.instr(fn, ins)
		}
	}
}

func (b *builder) retNode(fn *ssa.Function) int {
	if id, ok := b.rets[fn]; ok {
		return id
	}
	id := b.id(struct {
		f *ssa.Function
		s string
	}{fn, "ret"})
	b.rets[fn] = id
	return id
}

func (b *builder) instr(fn *ssa.Function, ins ssa.Instruction) {
	switch x := ins.(type) {
	case *ssa.BinOp:
		r := b.val(x)
		b.edge(b.val(x.X), r)
		b.edge(b.val(x.Y), r)
		switch x.Op {
		case token.XOR:
			// x ^ y of the two values is how a hand-written constant-time comparison combines them
			if !isConst(x.X) && !isConst(x.Y) {
				b.g.Sanitizers = append(b.g.Sanitizers, site{A: b.val(x.X), B: b.val(x.Y), Kind: "xor-fold", Pos: b.pos(x.Pos()), Fn: fn.String()})
			}
		case token.EQL, token.NEQ, token.LSS, token.LEQ, token.GTR, token.GEQ:
			if !isConst(x.X) && !isConst(x.Y) {
				b.g.Compares = append(b.g.Compares, site{A: b.val(x.X), B: b.val(x.Y), Kind: x.Op.String(), Pos: b.pos(x.Pos()), Fn: fn.String()})
				// struct values: fields are tracked apart, so a comparison of two structs compares field with field
				if _, isStruct := x.X.Type().Underlying().(*types.Struct); isStruct {
					fx, fy := fieldNodes(b, x.X), fieldNodes(b, x.Y)
					for i, a := range fx {
						if c, ok := fy[i]; ok {
							b.g.Compares = append(b.g.Compares, site{A: a, B: c, Kind: x.Op.String() + " (struct field)", Pos: b.pos(x.Pos()), Fn: fn.String()})
						}
					}
				}
			} else if x.Op == token.EQL || x.Op == token.NEQ {
				// x^y compared with a constant before it has been folded into an accumulator carried round the loop
				// (no phi between the xor and the test): a byte-wise test with an early exit, which is what a
				// constant-time loop must not do. The folded form (acc |= x^y; test after the loop) passes through a phi.
				v := x.X
				if isConst(v) {
					v = x.Y
				}
				if xr := unfoldedXor(v, 0); xr != nil && inLoop(x.Block()) {
					b.g.Compares = append(b.g.Compares, site{A: b.val(xr.X), B: b.val(xr.Y), Kind: "xor tested inside the loop", Pos: b.pos(x.Pos()), Fn: fn.String()})
				}
			}
		}
	case *ssa.UnOp:
		b.edge(b.val(x.X), b.val(x)) // includes loads (*addr)
	case *ssa.Convert:
		b.edge(b.val(x.X), b.val(x))
	case *ssa.ChangeType:
		b.edge(b.val(x.X), b.val(x))
	case *ssa.ChangeInterface:
		b.edge(b.val(x.X), b.val(x))
	case *ssa.MakeInterface:
		b.edge(b.val(x.X), b.val(x))
	case *ssa.SliceToArrayPointer:
		b.edge(b.val(x.X), b.val(x))
		b.edge(b.val(x), b.val(x.X))
	case *ssa.TypeAssert:
		b.edge(b.val(x.X), b.val(x))
	case *ssa.Extract:
		b.edge(b.val(x.Tuple), b.val(x))
	case *ssa.Phi:
		for _, e := range x.Edges {
			b.edge(b.val(e), b.val(x))
		}
	case *ssa.Slice:
		// a slice of a container shares its memory: taint in both directions
		b.edge(b.val(x.X), b.val(x))
		b.edge(b.val(x), b.val(x.X))
	case *ssa.IndexAddr:
		b.edge(b.val(x.X), b.val(x))
		b.edge(b.val(x), b.val(x.X)) // a store through the element address taints the container
	case *ssa.Index:
		b.edge(b.val(x.X), b.val(x))
	case *ssa.FieldAddr:
		b.edge(b.val(x.X), b.val(x)) // fields are kept apart: no edge back to the struct
	case *ssa.Field:
		b.edge(b.val(x.X), b.val(x))
	case *ssa.Lookup:
		b.edge(b.val(x.X), b.val(x))
		if _, isMap := x.X.Type().Underlying().(*types.Map); isMap && !isConst(x.Index) {
			b.g.Compares = append(b.g.Compares, site{A: b.val(x.X), B: b.val(x.Index), Kind: "maplookup", Pos: b.pos(x.Pos()), Fn: fn.String()})
		}
	case *ssa.MapUpdate:
		b.edge(b.val(x.Value), b.val(x.Map))
		b.edge(b.val(x.Key), b.val(x.Map))
	case *ssa.Store:
		b.edge(b.val(x.Val), b.val(x.Addr))
	case *ssa.MakeClosure:
		cl, _ := x.Fn.(*ssa.Function)
		for i, bind := range x.Bindings {
			if cl != nil && i < len(cl.FreeVars) {
				b.edge(b.val(bind), b.val(cl.FreeVars[i]))
				b.edge(b.val(cl.FreeVars[i]), b.val(bind)) // captured by reference
			}
		}
	case *ssa.Return:
		rn := b.retNode(fn)
		for _, r := range x.Results {
			b.edge(b.val(r), rn)
		}
	case *ssa.Send:
		b.edge(b.val(x.X), b.val(x.Chan))
	case *ssa.Range, *ssa.Next:
		if v, ok := ins.(ssa.Value); ok {
			for _, op := range ins.Operands(nil) {
				if *op != nil {
					b.edge(b.val(*op), b.val(v))
				}
			}
		}
	case *ssa.Call:
		b.call(fn, x, &x.Call, b.val(x))
	case *ssa.Go:
		b.call(fn, x, &x.Call, 0)
	case *ssa.Defer:
		b.call(fn, x, &x.Call, 0)
	}
}

func (b *builder) call(fn *ssa.Function, ins ssa.CallInstruction, c *ssa.CallCommon, res int) {
	name := calleeName(c)
	args := c.Args
	pos := b.pos(ins.Pos())
	// declassifiers: lengths are public
	if name == "builtin:len" || name == "builtin:cap" {
		return
	}
	if name == "builtin:copy" && len(args) == 2 {
		b.edge(b.val(args[1]), b.val(args[0]))
		return
	}
	if name == "builtin:append" {
		for _, a := range args {
			b.edge(b.val(a), res)
		}
		return
	}
	if constantTime[name] && len(args) == 2 {
		b.g.Sanitizers = append(b.g.Sanitizers, site{A: b.val(args[0]), B: b.val(args[1]), Kind: name, Pos: pos, Fn: fn.String()})
		return // the result carries no taint
	}
	if variableTime[name] && len(args) >= 2 {
		b.g.Compares = append(b.g.Compares, site{A: b.val(args[0]), B: b.val(args[1]), Kind: name, Pos: pos, Fn: fn.String()})
	} else if f, ok := originOf(c.Value); ok && f.Pkg != nil && searchPkgs[f.Pkg.Pkg.Path()] && len(args) >= 2 {
		// any other function of the text-searching / comparing packages that is given BOTH values (Index, Count, Cut,
		// Search, Match, Compare ...) inspects one against the other in data-dependent time
		for i := 0; i < len(args); i++ {
			for j := i + 1; j < len(args); j++ {
				if !isConst(args[i]) && !isConst(args[j]) {
					b.g.Compares = append(b.g.Compares, site{A: b.val(args[i]), B: b.val(args[j]), Kind: name, Pos: pos, Fn: fn.String()})
				}
			}
		}
	}
	// HMAC output
	if c.IsInvoke() && c.Method.Name() == "Sum" && strings.Contains(c.Value.Type().String(), "hash.Hash") {
		b.srcH[res] = true
		b.g.SrcHPos = append(b.g.SrcHPos, pos)
	}
	// submitted text arriving through the REST / wasm layers
	if c.IsInvoke() == false {
		switch name {
		case "(*github.com/valyala/fasthttp.RequestCtx).PostBody", "(*github.com/valyala/fasthttp.Args).Peek", "(syscall/js.Value).String":
			b.srcC[res] = true
			b.g.SrcCPos = append(b.g.SrcCPos, name+"@"+pos)
		}
	}
	// resolve callees inside the analysed packages (static, closures and interface calls via CHA)
	var callees []*ssa.Function
	if node := b.cg.Nodes[fn]; node != nil {
		for _, e := range node.Out {
			if e.Site == ins && e.Callee.Func != nil && b.own(e.Callee.Func) && len(e.Callee.Func.Blocks) > 0 {
				callees = append(callees, e.Callee.Func)
			}
		}
	}
	if len(callees) > 0 {
		for _, cal := range callees {
			params := cal.Params
			actual := args
			if c.IsInvoke() {
				actual = append([]ssa.Value{c.Value}, args...)
			}
			for i, p := range params {
				if i < len(actual) {
					b.edge(b.val(actual[i]), b.val(p))
				}
			}
			b.edge(b.retNode(cal), res)
		}
		return
	}
	// unknown callee: every result component is tainted iff any argument (or the receiver) is
	if c.IsInvoke() {
		b.edge(b.val(c.Value), res)
	} else if _, isFn := c.Value.(*ssa.Function); !isFn {
		b.edge(b.val(c.Value), res)
	}
	for _, a := range args {
		b.edge(b.val(a), res)
	}
	if op, ok := outParams[name]; ok && len(args) > op[0] && len(args) > op[1] {
		dst := args[op[0]]
		b.edge(b.val(args[op[1]]), b.val(dst))
		// the destination is usually passed as interface{}(&x): taint the pointer behind the conversion too
		for {
			switch d := dst.(type) {
			case *ssa.MakeInterface:
				dst = d.X
			case *ssa.ChangeType:
				dst = d.X
			case *ssa.Convert:
				dst = d.X
			default:
				dst = nil
			}
			if dst == nil {
				break
			}
			b.edge(b.val(args[op[1]]), b.val(dst))
		}
	}
	if c.IsInvoke() && (c.Method.Name() == "Write" || c.Method.Name() == "WriteString") && len(args) > 0 {
		b.edge(b.val(args[0]), b.val(c.Value)) // data written into a hash / buffer taints it
	}
}

func main() {
	target := flag.String("target", "lib", "lib | wasm | rest")
	repo := flag.String("repo", "/repo", "repository root")
	out := flag.String("out", "", "output JSON file")
	flag.Parse()
	repoRoot = strings.TrimRight(*repo, "/")
	env := []string{}
	for _, e := range os.Environ() {
		if strings.HasPrefix(e, "GOFLAGS=") || strings.HasPrefix(e, "GOOS=") || strings.HasPrefix(e, "GOARCH=") || strings.HasPrefix(e, "GOSUMDB=") || strings.HasPrefix(e, "GOTOOLCHAIN=") {
			continue
		}
		env = append(env, e)
	}
	env = append(env, "GOPROXY=off")
	dir := *repo
	patterns := []string{"."}
	switch *target {
	case "wasm":
		env = append(env, "GOOS=js", "GOARCH=wasm")
		patterns = []string{".", "./wasm"}
	case "rest":
		dir = *repo + "/internal/app"
		patterns = []string{"./api", "./cmd"}
	}
	cfg := &packages.Config{Mode: packages.LoadAllSyntax, Dir: dir, Env: env}
	pkgs, err := packages.Load(cfg, patterns...)
	if err != nil {
		fmt.Fprintln(os.Stderr, "load:", err)
		os.Exit(2)
	}
	if packages.PrintErrors(pkgs) > 0 {
		os.Exit(2)
	}
	prog, _ := ssautil.AllPackages(pkgs, ssa.InstantiateGenerics)
	prog.Build()
	own := func(f *ssa.Function) bool {
		if f != nil && f.Origin() != nil {
			f = f.Origin() // an instance of a generic function belongs to the package of the generic function
		}
		if f == nil || f.Pkg == nil {
			if f != nil && f.Parent() != nil {
				p := f.Parent()
				for p.Parent() != nil {
					p = p.Parent()
				}
				return p.Pkg != nil && strings.HasPrefix(p.Pkg.Pkg.Path(), "github.com/ja7ad/otp")
			}
			return false
		}
		return strings.HasPrefix(f.Pkg.Pkg.Path(), "github.com/ja7ad/otp") && !strings.HasSuffix(f.Pkg.Pkg.Path(), "/docs")
	}
	b := &builder{prog: prog, fset: prog.Fset, ids: map[any]int{}, succ: map[int]map[int]bool{}, own: own, rets: map[*ssa.Function]int{},
		srcH: map[int]bool{}, srcC: map[int]bool{}}
	b.g.Target = *target
	b.cg = cha.CallGraph(prog)
	var fns []*ssa.Function
	for f := range ssautil.AllFunctions(prog) {
		if own(f) && len(f.Blocks) > 0 {
			fns = append(fns, f)
		}
	}
	sort.Slice(fns, func(i, j int) bool { return fns[i].String() < fns[j].String() })
	for _, f := range fns {
		b.function(f)
	}
	b.g.N = len(b.ids)
	b.g.Succ = make([][]int, b.g.N)
	for i := range b.g.Succ {
		b.g.Succ[i] = []int{}
	}
	for from, m := range b.succ {
		for to := range m {
			b.g.Succ[from-1] = append(b.g.Succ[from-1], to)
		}
		sort.Ints(b.g.Succ[from-1])
	}
	for id := range b.srcH {
		if id != 0 {
			b.g.SrcH = append(b.g.SrcH, id)
		}
	}
	for id := range b.srcC {
		if id != 0 {
			b.g.SrcC = append(b.g.SrcC, id)
		}
	}
	sort.Ints(b.g.SrcH)
	sort.Ints(b.g.SrcC)
	for i := range b.g.Compares {
		b.g.Compares[i].ID = i + 1
	}
	for i := range b.g.Sanitizers {
		b.g.Sanitizers[i].ID = i + 1
	}
	if b.g.SrcH == nil {
		b.g.SrcH = []int{}
	}
	if b.g.SrcC == nil {
		b.g.SrcC = []int{}
	}
	if b.g.Compares == nil {
		b.g.Compares = []site{}
	}
	if b.g.Sanitizers == nil {
		b.g.Sanitizers = []site{}
	}
	b.g.Edges = b.edges
	data, _ := json.Marshal(b.g)
	if *out == "" {
		os.Stdout.Write(data)
	} else {
		os.WriteFile(*out, data, 0o644)
	}
	fmt.Fprintf(os.Stderr, "%s: %d functions, %d nodes, %d edges, %d compare sites, %d sanitizer sites, %d H sources, %d C sources\n",
		*target, b.g.Funcs, b.g.N, b.edges, len(b.g.Compares), len(b.g.Sanitizers), len(b.g.SrcH), len(b.g.SrcC))
	_ = constant.MakeBool
}
