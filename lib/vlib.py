"""Orchestration of the TLA+ model-based checks (see DESIGN.md).

The Python side is glue only: build the Go harness against the current tree, let it record traces
of the real code, run TLC on the small-scope models and on the recorded traces, reproduce
rejections, map TLC's verdict list to the exit code and write the evidence file.  It contains no
expected values: every verdict is TLC's verdict on the specification in /verif/spec.
"""
import hashlib, json, os, re, shutil, signal, subprocess, sys, time
from concurrent.futures import ThreadPoolExecutor

ROOT = os.path.dirname(os.path.dirname(os.path.abspath(__file__)))
SPEC = os.path.join(ROOT, "spec")
HARNESS = os.path.join(ROOT, "harness")
BUILD = os.path.join(ROOT, ".build")
REPO = os.environ.get("VERIF_REPO", "/repo")
NCPU = os.cpu_count() or 4


class Inconclusive(Exception):
    pass


# --------------------------------------------------------------------------- utilities
def log(*a):
    print(*a, flush=True)


def go_env():
    env = dict(os.environ)
    for k in ("GOSUMDB", "GOTOOLCHAIN", "GOWORK"):
        env.pop(k, None)
    env["GOFLAGS"] = "-mod=mod"
    env["GOPROXY"] = "off"
    return env


def repo_go_env():
    env = go_env()
    env.pop("GOFLAGS", None)
    return env


_children = set()


def _kill_children(*_a):
    """SIGTERM/SIGINT/exit of the check: nothing it started outlives it (each child leads its own process group)."""
    for pid in list(_children):
        try:
            os.killpg(pid, signal.SIGKILL)
        except Exception:
            pass
    if _a:
        os._exit(143)


import atexit
atexit.register(_kill_children)
for _sig in (signal.SIGTERM, signal.SIGINT, signal.SIGHUP):
    try:
        signal.signal(_sig, _kill_children)
    except Exception:
        pass


def run(cmd, cwd=None, env=None, timeout=None, check=False):
    p = subprocess.Popen(cmd, cwd=cwd, env=env, stdout=subprocess.PIPE, stderr=subprocess.STDOUT, text=True, errors="replace",
                         start_new_session=True)
    _children.add(p.pid)
    try:
        out, _ = p.communicate(timeout=timeout)
    except subprocess.TimeoutExpired:
        try:
            os.killpg(p.pid, signal.SIGKILL)
        except Exception:
            p.kill()
        out, _ = p.communicate()
        _children.discard(p.pid)
        return 124, (out or "") + "\n[timeout]"
    finally:
        if p.poll() is not None:
            _children.discard(p.pid)
    if check and p.returncode != 0:
        raise Inconclusive("command failed: %s\n%s" % (" ".join(cmd), out[-4000:]))
    return p.returncode, out


class Run:
    """One invocation of a check: scratch directory, accumulated statistics, verdict list."""

    def __init__(self, prop, tier, seed):
        self.prop, self.tier, self.seed = prop, tier, seed
        self.t0 = time.time()
        self.dir = os.path.join(BUILD, "run-%s-%s-%d" % (prop, tier, os.getpid()))
        shutil.rmtree(self.dir, ignore_errors=True)
        os.makedirs(self.dir)
        # scratch directories of runs that were killed (their process is gone) are removed by the next run
        for d in os.listdir(BUILD):
            m = re.match(r"run-.*-(\d+)$", d)
            if m and not os.path.exists("/proc/%s" % m.group(1)):
                shutil.rmtree(os.path.join(BUILD, d), ignore_errors=True)
        self.states = 0
        self.transitions = 0
        self.traces = 0
        self.evaluations = 0
        self.nontrivial = 0
        self.samples = []
        self.notes = []
        self.mc = []
        self.violations = []      # dicts: reason, replay
        self.known = []
        self.other_props = {}
        self.hook_mode = None
        self.classes = {}
        self.exhaustive = False
        self.extra = {}

    def cleanup(self):
        shutil.rmtree(self.dir, ignore_errors=True)


# --------------------------------------------------------------------------- harness build
def build_harness(r, repo=None, race=False):
    repo = repo or REPO
    hdir = os.path.join(r.dir, "h")
    if not os.path.isdir(hdir):
        shutil.copytree(HARNESS, hdir, ignore=shutil.ignore_patterns("js", "ssagraph", "*.tmpl"))
    with open(os.path.join(HARNESS, "go.mod.tmpl")) as f:
        mod = f.read().replace("@REPO@", repo)
    with open(os.path.join(hdir, "go.mod"), "w") as f:
        f.write(mod)
    binp = os.path.join(r.dir, "harness.race" if race else "harness.bin")
    last = ""
    for tags in ("verif,verif_internal", "verif", ""):
        cmd = ["go", "build", "-o", binp] + (["-race"] if race else [])
        if tags:
            cmd += ["-tags", tags]
        cmd.append(".")
        rc, out = run(cmd, cwd=hdir, env=go_env(), timeout=600)
        if rc == 0:
            r.hook_mode = tags or "none"
            if tags != "verif,verif_internal":
                r.notes.append("harness built in degraded hook mode '%s': %s" % (r.hook_mode, last[-300:]))
            return binp
        last = out
    raise Inconclusive("harness does not build against %s in any hook mode:\n%s" % (repo, last[-3000:]))


def build_harness_wasm(r):
    """The same harness compiled for js/wasm (the library's second build configuration); returns the command prefix
    that runs it under Node with the toolchain's wasm_exec_node.js."""
    hdir = os.path.join(r.dir, "hw")
    if not os.path.isdir(hdir):
        shutil.copytree(HARNESS, hdir, ignore=shutil.ignore_patterns("js", "ssagraph", "*.tmpl"))
    with open(os.path.join(HARNESS, "go.mod.tmpl")) as f:
        mod = f.read().replace("@REPO@", REPO)
    with open(os.path.join(hdir, "go.mod"), "w") as f:
        f.write(mod)
    env = go_env()
    env["GOOS"], env["GOARCH"] = "js", "wasm"
    binp = os.path.join(r.dir, "harness.wasm")
    last = ""
    for tags in ("verif,verif_internal", "verif", ""):
        cmd = ["go", "build", "-o", binp] + (["-tags", tags] if tags else []) + ["."]
        rc, out = run(cmd, cwd=hdir, env=env, timeout=900)
        if rc == 0:
            break
        last = out
    else:
        raise Inconclusive("harness does not build for js/wasm against %s:\n%s" % (REPO, last[-3000:]))
    rc, goroot = run(["go", "env", "GOROOT"], cwd=REPO, env=repo_go_env(), timeout=60)
    for cand in ("lib/wasm/wasm_exec_node.js", "misc/wasm/wasm_exec_node.js"):
        pth = os.path.join(goroot.strip().splitlines()[-1], cand)
        if os.path.exists(pth):
            return ["node", pth, binp]
    raise Inconclusive("wasm_exec_node.js of the toolchain not found")


def wasm_pass(r, scen, own, runner=None, timeout=300, tier=None):
    """A scenario generator executed in the js/wasm build of the library (harness compiled for js/wasm, run under
    Node), its trace validated like a native one. A call that never returns stops the whole single-threaded
    process: the generator announces every call of the wasm-only API on stderr, and a process that stops twice at
    the same announced call is a hang of that call (C10)."""
    runner = runner or build_harness_wasm(r)
    out = os.path.join(r.dir, "tr-wasm-" + scen)
    cap = []
    try:
        g = gen_traces(r, runner, out, prop=scen, capture=cap, timeout=timeout, tier=tier)
    except Inconclusive:
        last = [l for l in (cap[0] if cap else "").splitlines() if l.startswith("WAPI-BEGIN ")]
        if not last or "[timeout]" not in cap[0]:
            raise
        cap2 = []
        try:
            gen_traces(r, runner, out + "-again", prop=scen, capture=cap2, timeout=timeout, tier=tier)
            raise Inconclusive("the js/wasm process stopped answering once (at %s) but not a second time" % last[-1])
        except Inconclusive:
            last2 = [l for l in (cap2[0] if cap2 else "").splitlines() if l.startswith("WAPI-BEGIN ")]
            if not last2 or last2[-1] != last[-1] or "[timeout]" not in cap2[0]:
                raise
        if "C10" not in own:
            r.other_props["C10"] = r.other_props.get("C10", 0) + 1
            return runner
        scn = last[-1].split(" ", 1)[1]
        d = os.path.join(ROOT, "replays", r.prop)
        os.makedirs(d, exist_ok=True)
        path = os.path.join(d, "wasm-hang-%d.json" % r.seed)
        with open(path, "w") as fh:
            json.dump({"property": r.prop, "tier": r.tier, "seed": r.seed, "mode": "wasm-hang", "scenario": scen, "call": scn,
                       "reason": "no return within %d s (twice) in the js/wasm build" % timeout}, fh, indent=1)
        r.violations.append({"reason": "operation did not return normally in the js/wasm build: hang at " + scn, "replay": path, "event": {"scn": scn}})
        return runner
    r.extra["wasm_build_events_" + scen] = g["events"]
    judge_traces(r, runner, g["files"] or [], "LibTrace.tla", "LibTrace.cfg", own, genkw={"prop": scen, "timeout": timeout, "tier": tier})
    return runner


# --------------------------------------------------------------------------- TLC
TLC_JAVA = "-Xmx3g -Xss64m -XX:ParallelGCThreads=2"
RE_STATES = re.compile(r"(\d[\d,]*) states generated, (\d[\d,]*) distinct states found")


def tlc(r, workdir, module, cfg, env_extra=None, workers=1, timeout=1800, extra_args=None):
    """Run TLC in a private copy of the spec directory. Returns (rc, output, generated, distinct)."""
    os.makedirs(workdir, exist_ok=True)
    for f in os.listdir(SPEC):
        if f.endswith(".tla") or f.endswith(".cfg"):
            shutil.copy(os.path.join(SPEC, f), workdir)
    env = dict(os.environ)
    jtmp = os.path.join(workdir, "jtmp")   # TLC leaves an empty tlc-<n> directory in java.io.tmpdir per run
    os.makedirs(jtmp, exist_ok=True)
    env["JAVA_TOOL_OPTIONS"] = TLC_JAVA + " -Djava.io.tmpdir=" + jtmp
    env.update(env_extra or {})
    if "java.io.tmpdir" not in env["JAVA_TOOL_OPTIONS"]:
        env["JAVA_TOOL_OPTIONS"] += " -Djava.io.tmpdir=" + jtmp
    cmd = ["tlc", "-workers", str(workers), "-metadir", os.path.join(workdir, "meta"), "-config", cfg]
    cmd += (extra_args or []) + [module]
    rc, out = run(cmd, cwd=workdir, env=env, timeout=timeout)
    gen = dist = 0
    for m in RE_STATES.finditer(out):
        gen, dist = int(m.group(1).replace(",", "")), int(m.group(2).replace(",", ""))
    return rc, out, gen, dist


def model_check(r, name, module, cfg, workers=4, timeout=1800, coverage=False, expect_violation=None):
    """Exhaustive small-scope TLC run of a model configuration. A failure here is a defect of the
    machinery (the specification contradicts itself), never a verdict about the code."""
    wd = os.path.join(r.dir, "mc-" + name)
    args = ["-coverage", "1"] if coverage else []
    rc, out, gen, dist = tlc(r, wd, module, cfg, workers=workers, timeout=timeout, extra_args=args)
    ok = rc == 0 and "Model checking completed. No error has been found." in out
    if expect_violation:
        ok = expect_violation in out and rc != 0
    r.mc.append({"config": cfg, "module": module, "generated": gen, "distinct": dist, "ok": ok})
    if not ok:
        raise Inconclusive("model configuration %s failed (defect of the machinery, not of the code):\n%s"
                           % (cfg, out[-3000:]))
    r.states += dist
    r.transitions += gen
    if coverage:
        zero = [l for l in out.splitlines() if re.search(r"^<\w+ line .*>: 0:0$", l)]
        if zero:
            raise Inconclusive("vacuity guard: actions never taken in %s: %s" % (cfg, zero[:5]))
    shutil.rmtree(wd, ignore_errors=True)
    return gen, dist


def tlaps_check(r, module):
    """Optional unbounded lemma discharged by the TLA+ proof system (tlapm). Its failure is a defect of the
    machinery (exit 2), its absence (tool missing) only a note."""
    if shutil.which("tlapm") is None:
        r.notes.append("tlapm not installed: %s not re-proved" % module)
        return
    wd = os.path.join(r.dir, "tlaps-" + module.replace(".tla", ""))
    os.makedirs(wd, exist_ok=True)
    shutil.copy(os.path.join(SPEC, module), wd)
    rc, out = run(["tlapm", "--threads", "4", module], cwd=wd, timeout=600)
    m = re.search(r"All (\d+) obligations? proved", out)
    if rc != 0 or not m:
        raise Inconclusive("tlapm did not prove %s:\n%s" % (module, out[-1500:]))
    r.extra.setdefault("tlaps", {})[module] = {"obligations": int(m.group(1)), "proved": int(m.group(1))}
    shutil.rmtree(wd, ignore_errors=True)


def apalache_inductive(r, module, cinit="ConstInit", init="Init", indinit="IndInit", inv="IndInv", safety="Safety",
                       neg_next=None):
    """Unbounded safety by an inductive invariant discharged with Apalache: Init => IndInv (length 0),
    IndInv /\\ Next => IndInv' (length 1 from IndInit), IndInv => Safety (length 0 from IndInit). With neg_next, the
    same induction step over a deliberately wrong next-state relation must FAIL (non-vacuity). A failure is a defect
    of the machinery (exit 2); an absent tool only a note."""
    if shutil.which("apalache-mc") is None:
        r.notes.append("apalache-mc not installed: %s not re-checked" % module)
        return
    wd = os.path.join(r.dir, "apalache-" + module.replace(".tla", ""))
    os.makedirs(wd, exist_ok=True)
    shutil.copy(os.path.join(SPEC, module), wd)
    env = dict(os.environ)
    env["JAVA_TOOL_OPTIONS"] = "-Djava.io.tmpdir=" + wd
    env["JVM_ARGS"] = "-Djava.io.tmpdir=" + wd      # the launcher's own variable: SANY's scratch directories go here, not to /tmp
    env["TMPDIR"] = wd
    steps = [("base", init, inv, 0, "Next", True), ("step", indinit, inv, 1, "Next", True),
             ("implies", indinit, safety, 0, "Next", True)]
    if neg_next:
        steps.append(("negative", indinit, inv, 1, neg_next, False))
    res = {}
    for name, i, p, n, nxt, want_ok in steps:
        rc, out = run(["apalache-mc", "check", "--cinit=" + cinit, "--init=" + i, "--next=" + nxt, "--inv=" + p,
                       "--length=%d" % n, "--out-dir=" + os.path.join(wd, "out"), "--run-dir=" + os.path.join(wd, "run-" + name),
                       module], cwd=wd, timeout=900, env=env)
        ok = rc == 0 and "The outcome is: NoError" in out
        bad = "The outcome is: Error" in out and "invariant" in out
        if want_ok and not ok:
            raise Inconclusive("apalache did not establish %s (%s) of %s:\n%s" % (name, p, module, out[-1500:]))
        if not want_ok and not bad:
            raise Inconclusive("apalache: negative variant %s of %s was not refuted (vacuous induction?):\n%s"
                               % (nxt, module, out[-1500:]))
        res[name] = "holds" if want_ok else "refuted as expected"
    r.extra.setdefault("apalache", {})[module] = res
    shutil.rmtree(wd, ignore_errors=True)


def validate_shard(r, idx, trace_file, module, cfg):
    wd = os.path.join(r.dir, "tv-%03d" % idx)
    report = os.path.join(wd, "report.json")
    os.makedirs(wd, exist_ok=True)
    rc, out, gen, dist = tlc(r, wd, module, cfg, env_extra={"VERIF_TRACE": trace_file, "VERIF_REPORT": report},
                             workers=1, timeout=900 if r.tier == "quick" else 3000)
    if rc != 0 or not os.path.exists(report):
        raise Inconclusive("TLC did not finish trace %s (rc=%s):\n%s" % (trace_file, rc, out[-3000:]))
    with open(report) as f:
        rep = json.loads(f.readline())
    if rep["consumed"] != rep["total"]:
        raise Inconclusive("trace %s not consumed completely (%s of %s)" % (trace_file, rep["consumed"], rep["total"]))
    shutil.rmtree(wd, ignore_errors=True)
    return rep, gen, dist


def validate_traces(r, files, module="LibTrace.tla", cfg="LibTrace.cfg"):
    """Trace validation of every shard (parallel JVMs). Returns the list of failed clauses."""
    par = max(1, min(len(files), NCPU // 2 if r.tier == "quick" else NCPU - 2))
    bad, nbad = [], {}
    with ThreadPoolExecutor(max_workers=par) as ex:
        futs = [ex.submit(validate_shard, r, i, f, module, cfg) for i, f in enumerate(files)]
        for f, fut in zip(files, futs):
            rep, gen, dist = fut.result()
            r.states += dist
            r.transitions += gen
            r.traces += 1
            r.evaluations += rep["total"]
            for k, v in rep.get("cnt", {}).items():
                r.classes[k] = r.classes.get(k, 0) + v
            for k, v in rep.get("nbad", {}).items():
                nbad[k] = nbad.get(k, 0) + v
            for b in rep["bad"]:
                b["file"] = f
                bad.append(b)
    return bad, nbad


# --------------------------------------------------------------------------- known findings
def load_known():
    p = os.path.join(ROOT, "known_findings.json")
    if not os.path.exists(p):
        return []
    with open(p) as f:
        return json.load(f).get("findings", [])


def match_known(prop, ev, reason):
    """An open finding matches a rejected event by property and by a predicate over event fields."""
    for k in load_known():
        if k.get("status") != "open" or k.get("property") != prop:
            continue
        m = k.get("match", {})
        ok = True
        for field, allowed in m.items():
            if field == "reason_contains":
                ok = ok and allowed in reason
            elif field == "scn_prefix":
                ok = ok and str(ev.get("scn", "")).startswith(allowed)
            else:
                v = ev.get(field)
                ok = ok and (v in allowed if isinstance(allowed, list) else v == allowed)
        if ok:
            return k
    return None


# --------------------------------------------------------------------------- lib-trace checks
def read_events(path, ids=None):
    out = {}
    with open(path) as f:
        for line in f:
            e = json.loads(line)
            if ids is None or e["id"] in ids:
                out[e["id"]] = e
    return out


def gen_traces(r, binp, outdir, only=None, per_shard=None, env=None, capture=None, fresh=False, prop=None, timeout=3000, tier=None):
    os.makedirs(outdir, exist_ok=True)
    cmd = (binp if isinstance(binp, list) else [binp]) + ["gen", "-prop", prop or r.prop, "-tier", tier or r.tier, "-seed", str(r.seed), "-out", outdir]
    if fresh:
        cmd.append("-fresh")
    if per_shard:
        cmd += ["-per-shard", str(per_shard)]
    if only:
        cmd += ["-only", only]
    rc, out = run(cmd, cwd=r.dir, env=env or go_env(), timeout=timeout)
    if capture is not None:
        capture.append(out)
    if rc != 0 and not (capture is not None and rc == 66):
        raise Inconclusive("harness gen failed (rc=%s):\n%s" % (rc, out[-3000:]))
    with open(os.path.join(outdir, "gen.json")) as f:
        return json.load(f)


def short(ev):
    """A compact rendering of an event for evidence samples."""
    def txt(b):
        try:
            s = bytes(b).decode("ascii")
            if all(32 <= c < 127 for c in b):
                return s
        except Exception:
            pass
        return "0x" + bytes(b).hex()
    o = {"scn": ev.get("scn"), "op": ev.get("op"), "kind": ev.get("kind"), "ok": ev.get("ok")}
    for k in ("secret", "code", "val", "err"):
        if ev.get(k):
            o[k] = txt(ev[k])[:80]
    for k in ("ctr", "sec", "step", "skew", "period"):
        if ev.get(k) and any(ev[k]):
            o[k] = int.from_bytes(bytes(ev[k]), "big")
    for k in ("pnil", "digits", "alg", "macn"):
        o[k] = ev.get(k)
    if ev.get("x"):
        o["x"] = json.loads(json.dumps(ev["x"]))
        for k, v in list(o["x"].items()):
            if isinstance(v, list) and len(v) > 24:
                o["x"][k] = {"len": len(v), "head": v[:8]}
    return o


def write_replay(r, scns, events, reason, genkw=None):
    d = os.path.join(ROOT, "replays", r.prop)
    os.makedirs(d, exist_ok=True)
    h = hashlib.sha1(("|".join(scns) + reason).encode()).hexdigest()[:12]
    p = os.path.join(d, h + ".json")
    with open(p, "w") as f:
        json.dump({"property": r.prop, "tier": r.tier, "seed": r.seed, "scn": scns, "reason": reason,
                   "wasm_scenario": (genkw or {}).get("prop"), "events": [short(e) for e in events]}, f, indent=1)
    return p


def lib_trace_check(r, mcs=(), module="LibTrace.tla", cfg="LibTrace.cfg", per_shard=None, own=None):
    """The common shape of a check: small-scope model configurations, then traces of the real code
    validated by TLC, rejections reproduced in a fresh process."""
    own = own or {r.prop}
    for name, mod, c, kw in mcs:
        if c == "TLAPS":
            tlaps_check(r, mod)
            continue
        model_check(r, name, mod, c, **kw)
    binp = build_harness(r)
    g = gen_traces(r, binp, os.path.join(r.dir, "tr"), per_shard=per_shard)
    r.samples = [short(e) for e in g.get("samples", [])][:6]
    r.extra.update(g.get("extra", {}))
    # fresh pass: the history-sensitive sequences of the same generator as the first calls of a new process
    gf = gen_traces(r, binp, os.path.join(r.dir, "tr-fresh"), per_shard=per_shard, fresh=True)
    r.extra["fresh_pass_events"] = gf["events"]
    judge_traces(r, binp, (g["files"] or []) + (gf["files"] or []), module, cfg, own)


def judge_traces(r, binp, files, module, cfg, own, genkw=None):
    """TLC validates the trace files; rejections owned by this check are reproduced in a fresh process (same
    generator, same arguments, only the scenarios concerned) before they count."""
    bad, nbad = validate_traces(r, files, module, cfg)
    r.nontrivial = sum(v for k, v in r.classes.items() if k in ("value", "error", "errorNV", "accept", "refuse", "row", "ok", "panics"))
    if nbad.get("INC", 0):
        raise Inconclusive("%d event(s) inconclusive (oracle table miss / bad hint): %s"
                           % (nbad["INC"], [b for b in bad if b["p"] == "INC"][:3]))
    for p, n in nbad.items():
        if n and p not in own:
            r.other_props[p] = n
    mine = [b for b in bad if b["p"] in own]
    total_mine = sum(nbad.get(p, 0) for p in own)
    if not mine and total_mine:
        raise Inconclusive("failures counted but not listed")
    # group by scenario, reproduce the first few distinct ones
    seen, todo = set(), []
    cache = {}
    for b in mine:
        if b["file"] not in cache:
            cache[b["file"]] = read_events(b["file"])
        ev = cache[b["file"]][b["id"]]
        key = ev["scn"]
        if key in seen:
            continue
        seen.add(key)
        scns = [key]
        if ev.get("grp", 0):
            scns = [e["scn"] for e in cache[b["file"]].values() if e.get("grp") == ev["grp"] and e["id"] <= ev["id"]]
        elif "/gated" in key:
            # a round of concurrent calls meeting at a gate: which of them shows the effect varies, the round is the unit
            pre = key.rsplit("/", 1)[0] + "/"
            scns = [e["scn"] for e in cache[b["file"]].values() if e["scn"].startswith(pre)]
        todo.append((b, ev, scns))
    reported = 0
    unrepro = []
    for b, ev, scns in todo:
        k = match_known(b["p"], ev, b["r"])
        if k is not None:
            if k["what"] not in [x["what"] for x in r.known]:
                r.known.append(k)
            continue
        if reported >= 5:
            continue
        if reproduce(r, binp, scns, b, module, cfg, genkw):
            path = write_replay(r, scns, [ev], b["r"], genkw)
            sev = short(ev)
            if isinstance(b.get("want"), dict) and b["want"].get("val") is not None:
                sev["spec_expects"] = short({"val": b["want"]["val"]}).get("val", "")
            r.violations.append({"reason": b["r"], "replay": path, "event": sev})
            reported += 1
        else:
            # it only matters whether SOME rejection fails again in a fresh process; one that does not is noted
            r.notes.append("rejection of %s did not reproduce in a fresh process: %s" % (ev["scn"], b["r"]))
            unrepro.append("%s %s" % (ev["scn"], b["r"]))
            if len(unrepro) > 6:
                break
    if unrepro and not r.violations:
        raise Inconclusive("a rejection did not reproduce: " + unrepro[0])
    r.extra["rejected_events_total"] = r.extra.get("rejected_events_total", 0) + total_mine


def reproduce(r, binp, scns, b, module, cfg, genkw=None):
    d = os.path.join(r.dir, "repro-%d" % len(os.listdir(r.dir)))
    g = gen_traces(r, binp, d, only="\x1f".join(scns), fresh=scns[0].startswith("F:"), **(genkw or {}))
    if g["events"] == 0:
        return False
    bad, nbad = [], {}
    for i, f in enumerate(g["files"]):
        rep, _, _ = validate_shard(r, 900 + i + len(os.listdir(r.dir)), f, module, cfg)
        bad += rep["bad"]
    return any(x["p"] == b["p"] for x in bad)


# --------------------------------------------------------------------------- evidence
LEVEL = "model_checking"


def write_evidence(r, status):
    cov = {
        "states": max(r.states, 0),
        "transitions": max(r.transitions, 0),
        "traces_validated_against_impl": r.traces,
        "evaluations": r.evaluations,
        "distinct_nontrivial": r.nontrivial,
        "rule": RULES.get(r.prop, ""),
        "samples": r.samples or [{"note": "no sample recorded"}],
        "exhaustive": r.exhaustive,
        "model_configs": r.mc,
        "expectation_classes": r.classes,
        "hook_mode": r.hook_mode,
        "status": status,
        "notes": r.notes,
        "known_findings_hit": [k["what"] for k in r.known],
        "rejections_attributed_to_other_properties": r.other_props,
        "checker_cmd": "tlc (TLC2, tla2tools 1.8.0) on /verif/spec",
    }
    cov.update(r.extra)
    ev = {
        "property_id": r.prop, "tier": r.tier, "seed": r.seed, "level": LEVEL, "coverage": cov,
        "assumptions": ASSUMPTIONS.get(r.prop, ASSUMPTIONS["*"]),
        "wall_s": round(time.time() - r.t0, 2),
        "violations": len(r.violations),
    }
    evdir = os.environ.get("VERIF_EVID_DIR") or os.path.join(ROOT, "evidence")
    os.makedirs(evdir, exist_ok=True)
    with open(os.path.join(evdir, r.prop + ".json"), "w") as f:
        json.dump(ev, f, indent=1)


ASSUMPTIONS = {
    "*": ["TLC evaluates the specification correctly",
          "HMAC is an uninterpreted function of the specification, interpreted in trace validation by Go crypto/hmac "
          "(table keyed by the key/message the specification computes; a wrong harness belief is a miss, not a verdict)",
          "encoding/json and the harness record the real call's arguments and results faithfully"],
}
RULES = {}


# --------------------------------------------------------------------------- registry of checks
def chk_lib(mcs=(), per_shard=None, wasm=(), wasm_thorough=True):
    """wasm: scenario generators additionally executed in the js/wasm build of the library in every tier; in the
    thorough tier the property's own generator runs there too."""
    def f(r):
        lib_trace_check(r, mcs=mcs, per_shard=per_shard)
        scens = list(wasm)
        if wasm_thorough and r.tier != "quick" and r.prop not in scens:
            scens.append(r.prop)
        runner = None
        for sc in scens:
            # the property's own generator runs at its quick size there (the native pass carries the thorough bounds)
            runner = wasm_pass(r, sc, {r.prop}, runner=runner, timeout=120 if sc == "WAPI" else 3000, tier=None if sc == "WAPI" else "quick")
    return f


CHECKS = {}


def register():
    from vprops import install
    install(sys.modules[__name__])


def main(argv):
    if len(argv) < 2:
        print(__doc__ or "usage: check <ID> quick|thorough")
        return 2
    prop = argv[0]
    register()
    if prop not in CHECKS:
        print("no check for", prop)
        return 2
    if argv[1] == "--replay":
        with open(argv[2]) as f:
            rp = json.load(f)
        r = Run(prop, rp.get("tier", "quick"), int(rp.get("seed", 1)))
        try:
            fn = REPLAYS.get(prop, replay_lib)
            hit = fn(r, rp)
        except Inconclusive as ex:
            log("INCONCLUSIVE:", ex)
            r.cleanup()
            return 2
        r.cleanup()
        if hit:
            log("VIOLATION property=%s replay=%s" % (prop, argv[2]))
            return 1
        log("replay: not reproduced on this tree")
        return 0
    tier = os.environ.get("VERIF_TIER") or argv[1]
    if argv[1] in ("quick", "thorough"):
        tier = argv[1]
    seed = int(os.environ.get("VERIF_SEED", "1") or 1)
    r = Run(prop, tier, seed)
    try:
        CHECKS[prop](r)
    except Inconclusive as ex:
        log("INCONCLUSIVE property=%s: %s" % (prop, ex))
        r.notes.append("inconclusive: " + str(ex)[:500])
        write_evidence(r, "inconclusive")
        if not os.environ.get("VERIF_KEEP"):
            r.cleanup()
        return 2
    for k in r.known:
        log("KNOWN-FINDING: property=%s %s" % (prop, k["what"]))
    for v in r.violations:
        log("VIOLATION property=%s replay=%s" % (prop, v["replay"]))
        log("  reason: %s" % v["reason"])
        log("  event : %s" % json.dumps(v.get("event"))[:600])
    write_evidence(r, "violation" if r.violations else "ok")
    log("%s %s: %d events in %d trace(s), %d model states, %d decisive, hook mode %s, %.1fs -> %s"
        % (prop, tier, r.evaluations, r.traces, r.states, r.nontrivial, r.hook_mode,
           time.time() - r.t0, "VIOLATION" if r.violations else "ok"))
    if not os.environ.get("VERIF_KEEP"):
        r.cleanup()
    return 1 if r.violations else 0


def replay_lib(r, rp):
    b = {"p": r.prop}
    if rp.get("mode") == "wasm-hang":
        wasm_pass(r, rp["scenario"], {r.prop})
        return bool(r.violations)
    if rp.get("wasm_scenario"):
        runner = build_harness_wasm(r)
        return reproduce(r, runner, rp["scn"], b, "LibTrace.tla", "LibTrace.cfg", {"prop": rp["wasm_scenario"], "timeout": 300})
    binp = build_harness(r)
    return reproduce(r, binp, rp["scn"], b, "LibTrace.tla", "LibTrace.cfg")


REPLAYS = {}
