"""Per-property wiring: which model configurations, which scenario generator, which trace spec."""


import json, os, re, shutil, hashlib


def check_c11(v):
    """C11: exhaustive small-scope model of the pool protocol; TLC-generated behaviours replayed on the
    real code through scheduler gates and validated against the model; free-running race tier."""
    def f(r):
        quick = r.tier == "quick"
        # (a) the design: every interleaving of 2 (thorough: 3) callers x adversary x GC
        v.model_check(r, "pools2", "Pools.tla", "Pools_MC.cfg", workers=8)
        v.model_check(r, "poolslive", "Pools.tla", "Pools_Live.cfg", workers=1)
        if not quick:
            v.model_check(r, "pools3", "Pools.tla", "Pools_MC3.cfg", workers=14, timeout=3000)
        for d in ("EarlyPut", "SharedStatic", "ResultAliasesBuffer"):
            # non-vacuity of the invariants: each named deviation must violate them
            v.model_check(r, "neg" + d, "Pools.tla", "Pools_Neg_%s.cfg" % d, workers=2, expect_violation="Invariant Inv is violated")
        binp = v.build_harness(r)
        if r.hook_mode == "none":
            r.notes.append("no verif hook: gate-level replay skipped, only the free-running tier ran")
        else:
            replay_schedules(v, r, binp, n=150 if quick else 1500)
        # (c) free-running tier under the race detector, results validated by the sequential specification
        racebin = v.build_harness(r, race=True)
        env = v.go_env()
        env["GORACE"] = "halt_on_error=0 exitcode=66"
        cap = []
        g = v.gen_traces(r, racebin, os.path.join(r.dir, "tr"), per_shard=1500, env=env, capture=cap)
        r.samples += [v.short(e) for e in g.get("samples", [])][:3]
        bad, nbad = v.validate_traces(r, g["files"], "LibTrace.tla", "LibTrace.cfg")
        if nbad.get("INC", 0):
            raise v.Inconclusive("inconclusive events in the free-running tier: %s" % [b for b in bad if b["p"] == "INC"][:3])
        r.nontrivial += sum(1 for _ in [0])  # placeholder, real count below
        r.extra["free_running_events"] = g["events"]
        for p, n in nbad.items():
            if n and p != "C11":
                r.other_props[p] = r.other_props.get(p, 0) + n
        mine = [b for b in bad if b["p"] == "C11"]
        races = library_races(v, cap[0] if cap else "")
        if mine or races:
            # a second run must show it again before it counts
            cap2 = []
            g2 = v.gen_traces(r, racebin, os.path.join(r.dir, "tr2"), per_shard=1500, env=env, capture=cap2)
            bad2, nbad2 = v.validate_traces(r, g2["files"], "LibTrace.tla", "LibTrace.cfg")
            again = [b for b in bad2 if b["p"] == "C11"]
            races2 = library_races(v, cap2[0] if cap2 else "")
            if (mine and again) or (races and races2):
                reason = mine[0]["r"] if (mine and again) else "data race reported by the race detector in two runs"
                d = os.path.join(v.ROOT, "replays", "C11")
                os.makedirs(d, exist_ok=True)
                path = os.path.join(d, "free-running-%d.json" % r.seed)
                with open(path, "w") as fh:
                    json.dump({"property": "C11", "mode": "free", "tier": r.tier, "seed": r.seed, "reason": reason,
                               "race_report": races[0] if races else ""}, fh, indent=1)
                r.violations.append({"reason": reason, "replay": path, "event": None})
            else:
                raise v.Inconclusive("a rejection in the free-running tier did not reproduce")
        r.nontrivial = r.extra.get("schedules_replayed", 0) + r.classes.get("value", 0) + r.classes.get("accept", 0)
    return f


def library_races(v, text):
    """Race reports whose racing accesses are in the library under test (not in the harness)."""
    hits = []
    for block in (text or "").split("=================="):
        if "WARNING: DATA RACE" not in block:
            continue
        lines = block.splitlines()
        lib = False
        for i, l in enumerate(lines):
            if re.match(r"^(Read|Write|Previous read|Previous write|Atomic|Previous atomic)", l.strip()):
                frame = " ".join(lines[i + 1:i + 3])
                if v.REPO.rstrip("/") + "/" in frame or "github.com/ja7ad/otp" in frame:
                    lib = True
        if lib:
            hits.append(block.strip()[:1500])
    return hits


def sim_schedules(v, r, n, seed):
    wd = os.path.join(r.dir, "gen")
    rc, out, _, _ = v.tlc(r, wd, "PoolsGen.tla", "PoolsGen.cfg", workers=1, timeout=900,
                          extra_args=["-simulate", "num=%d" % n, "-depth", "41", "-seed", str(seed)])
    seen, scheds = set(), []
    for line in out.splitlines():
        if line.startswith('<<"SCHED"'):
            js = json.loads(line[line.index(", ") + 2:-2])
            if js not in seen:
                seen.add(js)
                scheds.append(js)
    if not scheds:
        raise v.Inconclusive("TLC generated no behaviours from PoolsGen:\n" + out[-2000:])
    return scheds


def pools_validate(v, r, idx, trace):
    wd = os.path.join(r.dir, "pv-%s" % idx)
    env = {"VERIF_TRACE": trace, "JAVA_TOOL_OPTIONS": v.TLC_JAVA + " -Dtlc2.tool.queue.IStateQueue=StateDeque"}
    rc, out, gen, dist = v.tlc(r, wd, "PoolsTrace.tla", "PoolsTrace.cfg", env_extra=env, workers=1, timeout=1800)
    accepted = "Invariant NotDone is violated" in out
    rejected = "Model checking completed. No error has been found." in out
    if not accepted and not rejected:
        raise v.Inconclusive("TLC failed on pool trace %s:\n%s" % (trace, out[-3000:]))
    shutil.rmtree(wd, ignore_errors=True)
    return accepted, gen, dist, out


def replay_schedules(v, r, binp, n):
    scheds = sim_schedules(v, r, n, r.seed)
    sf = os.path.join(r.dir, "sched.txt")
    with open(sf, "w") as fh:
        fh.write("\n".join(scheds) + "\n")
    out = os.path.join(r.dir, "pools")
    os.makedirs(out, exist_ok=True)
    rc, o = v.run([binp, "replay-pools", "-sched", sf, "-out", out, "-seed", str(r.seed), "-chunk", "20"], cwd=r.dir, env=v.go_env(), timeout=3000)
    if rc != 0:
        raise v.Inconclusive("gate replay failed:\n" + o[-3000:])
    info = json.load(open(os.path.join(out, "replay.json")))
    if info.get("notes"):
        r.notes += info["notes"][:5]
        raise v.Inconclusive("gate replay degraded: " + "; ".join(info["notes"][:3]))
    from concurrent.futures import ThreadPoolExecutor
    with ThreadPoolExecutor(max_workers=8) as ex:
        results = list(ex.map(lambda t: pools_validate(v, r, os.path.basename(t[1]), t[1]), enumerate(info["files"])))
    r.extra["schedules_replayed"] = info["schedules"]
    r.extra["gate_events"] = info["events"]
    r.evaluations += info["events"]
    r.samples.append({"schedule": json.loads(scheds[0])[:12], "note": "first 12 actions of a TLC-generated behaviour of Pools replayed on the real code"})
    for (acc, gen, dist, _), f in zip(results, info["files"]):
        r.states += dist
        r.transitions += gen
        if acc:
            r.traces += 1
            continue
        # pinpoint the schedule: replay each schedule of the chunk alone, in a fresh process
        sids = sorted({json.loads(l)["sid"] for l in open(f)})
        hit = None
        for sid in sids:
            d = os.path.join(r.dir, "one-%d" % sid)
            os.makedirs(d, exist_ok=True)
            v.run([binp, "replay-pools", "-sched", sf, "-out", d, "-seed", str(r.seed), "-only-sid", str(sid)], cwd=r.dir, env=v.go_env(), timeout=600)
            fs = json.load(open(os.path.join(d, "replay.json")))["files"]
            acc1, _, _, _ = pools_validate(v, r, "one-%d" % sid, fs[0])
            if not acc1:
                hit = (sid, fs[0])
                break
        if hit is None:
            raise v.Inconclusive("a rejected chunk of schedules was accepted schedule by schedule (did not reproduce)")
        sid, tf = hit
        dd = os.path.join(v.ROOT, "replays", "C11")
        os.makedirs(dd, exist_ok=True)
        path = os.path.join(dd, "sched-%s.json" % hashlib.sha1(scheds[sid - 1].encode()).hexdigest()[:12])
        with open(path, "w") as fh:
            json.dump({"property": "C11", "mode": "gate", "seed": r.seed, "sid": sid, "schedule": json.loads(scheds[sid - 1]),
                       "reason": "no behaviour of Pools explains the events recorded from the real code for this schedule",
                       "events": [json.loads(l) for l in open(tf)][:200]}, fh)
        r.violations.append({"reason": "gate-level trace rejected by Pools (exclusive ownership / reads own data / result correct / result stable)",
                             "replay": path, "event": {"schedule": sid}})
        if len(r.violations) >= 3:
            break


def replay_c11(v):
    def f(r, rp):
        binp = v.build_harness(r)
        if rp.get("mode") == "gate":
            sf = os.path.join(r.dir, "sched.txt")
            with open(sf, "w") as fh:
                fh.write(json.dumps(rp["schedule"]) + "\n")
            d = os.path.join(r.dir, "one")
            os.makedirs(d, exist_ok=True)
            # same per-schedule random stream as in the original run: seed*100003 + sid with sid = 1
            seed = int(rp["seed"]) * 100003 + int(rp["sid"]) - 1
            v.run([binp, "replay-pools", "-sched", sf, "-out", d, "-seed", "0", "-chunk", "1"], cwd=r.dir, env=v.go_env(), timeout=600)
            fs = json.load(open(os.path.join(d, "replay.json")))["files"]
            acc, _, _, _ = pools_validate(v, r, "rp", fs[0])
            return not acc
        chk = check_c11(v)
        chk(r)
        return bool(r.violations)
    return f


def check_c09(v):
    """C09: TLC computes the taint fixpoint of the TLA+ information-flow system instantiated with the
    flow graph extracted from the current tree (three build configurations) and checks NoLeak."""
    def f(r):
        sdir = os.path.join(r.dir, "ssagraph")
        shutil.copytree(os.path.join(v.HARNESS, "ssagraph"), sdir)
        binp = os.path.join(r.dir, "ssagraph.bin")
        rc, out = v.run(["go", "build", "-o", binp, "."], cwd=sdir, env=v.go_env(), timeout=900)
        if rc != 0:
            raise v.Inconclusive("graph extractor does not build:\n" + out[-2000:])
        r.hook_mode = "not needed (static extraction)"
        leaks_all = []
        for target in ("lib", "wasm", "rest"):
            gf = os.path.join(r.dir, "g_%s.json" % target)
            rc, out = v.run([binp, "-target", target, "-repo", v.REPO, "-out", gf], cwd=r.dir, env=v.go_env(), timeout=900)
            if rc != 0 or not os.path.exists(gf):
                raise v.Inconclusive("extraction failed for target %s:\n%s" % (target, out[-2000:]))
            g = json.load(open(gf))
            wd = os.path.join(r.dir, "taint-" + target)
            rep = os.path.join(wd, "report.json")
            os.makedirs(wd, exist_ok=True)
            rc, out, gen, dist = v.tlc(r, wd, "Taint.tla", "Taint.cfg", env_extra={"VERIF_GRAPH": gf, "VERIF_REPORT": rep}, workers=1, timeout=900)
            if rc != 0 or not os.path.exists(rep):
                raise v.Inconclusive("TLC failed on the taint system of %s:\n%s" % (target, out[-2000:]))
            rp = json.loads(open(rep).readline())
            r.states += dist
            r.transitions += gen
            r.traces += 1
            r.evaluations += len(g["compares"]) + len(g["sanitizers"])
            r.extra.setdefault("targets", {})[target] = {"functions": g["funcs"], "nodes": g["n"], "edges": g["edges"],
                                                          "compare_sites": len(g["compares"]), "sanitizer_sites": len(g["sanitizers"]),
                                                          "h_sources": g["srchpos"], "h_tainted": rp["nh"], "c_tainted": rp["nc"],
                                                          "sanitizers": [s["pos"] for s in g["sanitizers"]]}
            # non-vacuity: HMAC output exists, every constant-time comparison sits between H and C data
            if rp["nsrch"] == 0:
                raise v.Inconclusive("no HMAC output found in target %s (extraction lost the source)" % target)
            # (xor sites elsewhere in the code - hashing, encoding - are candidates only; library calls must be reached)
            hard = [i for i in rp["unreached"] if g["sanitizers"][i - 1]["kind"] != "xor-fold"]
            if hard and not rp["leaks"]:
                sites = [g["sanitizers"][i - 1]["pos"] for i in hard]
                raise v.Inconclusive("constant-time comparison(s) not reached by both taints in %s: %s" % (target, sites))
            if not rp["reached"] and not rp["leaks"]:
                raise v.Inconclusive("no constant-time comparison between HMAC-derived data and submitted text found in target %s" % target)
            r.nontrivial += sum(1 for c in g["compares"]) + rp["nsan"]
            for i in rp["leaks"]:
                c = g["compares"][i - 1]
                leaks_all.append({"target": target, "pos": c["pos"], "kind": c["kind"], "fn": c["fn"]})
            r.samples.append({"target": target, "sanitizer_sites": [s["pos"] + " " + s["kind"] for s in g["sanitizers"]],
                              "some_compare_sites": [c["pos"] + " " + c["kind"] for c in g["compares"][:5]]})
        if leaks_all:
            d = os.path.join(v.ROOT, "replays", "C09")
            os.makedirs(d, exist_ok=True)
            key = hashlib.sha1(json.dumps(leaks_all, sort_keys=True).encode()).hexdigest()[:12]
            path = os.path.join(d, key + ".json")
            json.dump({"property": "C09", "leaks": leaks_all, "tier": r.tier, "seed": r.seed}, open(path, "w"), indent=1)
            seen = set()
            for l in leaks_all:
                if l["pos"] in seen:
                    continue
                seen.add(l["pos"])
                r.violations.append({"reason": "variable-time comparison (%s) between HMAC-derived data and submitted text at %s in %s [%s build]"
                                     % (l["kind"], l["pos"], l["fn"], l["target"]), "replay": path, "event": l})
    return f


def check_rest(v, prop):
    """C18 / C19: the real server binary (built from the current tree) on a loopback port, driven by the
    harness; every exchange validated by TLC against RestTrace (endpoint mapping composed with Lib)."""
    def f(r):
        v.model_check(r, "rest", "Rest.tla", "Rest_MC.cfg", workers=4)
        v.model_check(r, "restneg", "Rest.tla", "Rest_Neg.cfg", workers=2, expect_violation="is violated")
        binp = v.build_harness(r)
        srv = os.path.join(r.dir, "srv")
        rc, out = v.run(["go", "build", "-o", srv, "./cmd"], cwd=os.path.join(v.REPO, "internal", "app"), env=v.repo_go_env(), timeout=900)
        if rc != 0:
            raise v.Inconclusive("the REST server does not build:\n" + out[-2000:])

        def drive(outdir, only=None):
            os.makedirs(outdir, exist_ok=True)
            cmd = [binp, "rest", "-prop", prop, "-tier", r.tier, "-seed", str(r.seed), "-server", srv, "-out", outdir]
            if only:
                cmd += ["-only", only]
            rc, out = v.run(cmd, cwd=r.dir, env=v.go_env(), timeout=3000)
            if rc != 0:
                raise v.Inconclusive("REST driver failed (rc=%s):\n%s" % (rc, out[-2000:]))
            return json.load(open(os.path.join(outdir, "gen.json")))
        g = drive(os.path.join(r.dir, "rt"))
        r.samples = [{"scn": s["scn"], "method": s["method"], "path": s["path"], "cls": s["cls"], "request_body": (s.get("r") or {}).get("body", "")[:300],
                      "status": s["resp"]["status"], "ms": s["resp"]["ms"]} for s in g.get("samples", [])]
        bad, nbad = v.validate_traces(r, g["files"], "RestTrace.tla", "RestTrace.cfg")
        r.nontrivial = sum(r.classes.values())
        r.extra["server_alive_at_end"] = g.get("alive_at_end")
        if nbad.get("INC", 0):
            raise v.Inconclusive("inconclusive exchanges: %s" % [b for b in bad if b["p"] == "INC"][:3])
        for p, n in nbad.items():
            if n and p != prop:
                r.other_props[p] = n
        mine = [b for b in bad if b["p"] == prop]
        seen, reported = set(), 0
        cache = {}
        for b in mine:
            if b["file"] not in cache:
                cache[b["file"]] = v.read_events(b["file"])
            ev = cache[b["file"]][b["id"]]
            if ev["scn"] in seen or reported >= 5:
                continue
            seen.add(ev["scn"])
            k = v.match_known(prop, ev, b["r"])
            if k is not None:
                if k["what"] not in [x["what"] for x in r.known]:
                    r.known.append(k)
                continue
            # fresh server process, same seed, only this exchange kept
            g2 = drive(os.path.join(r.dir, "repro-%d" % reported), only=ev["scn"])
            again = False
            for i2, f2 in enumerate(g2["files"]):
                rep, _, _ = v.validate_shard(r, 800 + reported * 10 + i2, f2, "RestTrace.tla", "RestTrace.cfg")
                again = again or any(x["p"] == prop for x in rep["bad"])
            if not again:
                raise v.Inconclusive("a rejected exchange did not reproduce with a fresh server: %s %s" % (ev["scn"], b["r"]))
            d = os.path.join(v.ROOT, "replays", prop)
            os.makedirs(d, exist_ok=True)
            path = os.path.join(d, hashlib.sha1((ev["scn"] + b["r"]).encode()).hexdigest()[:12] + ".json")
            json.dump({"property": prop, "tier": r.tier, "seed": r.seed, "scn": [ev["scn"]], "reason": b["r"],
                       "exchange": {"method": ev["method"], "path": ev["path"], "request": (ev.get("r") or {}), "status": ev["resp"]["status"],
                                    "ms": ev["resp"]["ms"]}}, open(path, "w"), indent=1)
            r.violations.append({"reason": b["r"], "replay": path, "event": {"scn": ev["scn"], "path": ev["path"], "request": str(ev.get("r"))[:400], "status": ev["resp"]["status"]}})
            reported += 1
    return f


def check_c20(v):
    """C20: the wasm module built from the current tree, called under Node via globalThis and via the JS
    package's export object; every call validated by TLC against WasmTrace (marshalling layer + native Lib)."""
    def f(r):
        v.model_check(r, "wasm", "Wasm.tla", "Wasm_MC.cfg", workers=2)
        v.model_check(r, "wasmneg", "Wasm.tla", "Wasm_Neg.cfg", workers=1, expect_violation="is violated")
        binp = v.build_harness(r)
        env = v.repo_go_env()
        env["GOOS"], env["GOARCH"] = "js", "wasm"
        gdir = os.path.join(r.dir, "wg")
        pdir = os.path.join(r.dir, "wp")
        os.makedirs(gdir)
        rc, out = v.run(["go", "build", "-o", os.path.join(gdir, "otp.wasm"), "./wasm"], cwd=v.REPO, env=env, timeout=900)
        if rc != 0:
            raise v.Inconclusive("the wasm binding does not build:\n" + out[-2000:])
        rc, goroot = v.run(["go", "env", "GOROOT"], cwd=v.REPO, env=v.repo_go_env(), timeout=60)
        wexec = None
        for cand in ("lib/wasm/wasm_exec.js", "misc/wasm/wasm_exec.js"):
            pth = os.path.join(goroot.strip().splitlines()[-1], cand)
            if os.path.exists(pth):
                wexec = pth
        if wexec is None:
            raise v.Inconclusive("wasm_exec.js of the toolchain not found")
        shutil.copy(wexec, gdir)
        shutil.copytree(os.path.join(v.REPO, "otp-js", "src"), os.path.join(pdir, "src"))
        os.makedirs(os.path.join(pdir, "lib"))
        shutil.copy(os.path.join(gdir, "otp.wasm"), os.path.join(pdir, "lib", "otp.wasm"))

        def drive(outdir, only=None):
            os.makedirs(outdir, exist_ok=True)
            cmd = [binp, "wasm", "-tier", r.tier, "-seed", str(r.seed), "-out", outdir, "-global-dir", gdir, "-package-dir", pdir,
                   "-driver", os.path.join(v.HARNESS, "js", "driver.js")]
            if only:
                cmd += ["-only", only]
            rc, out = v.run(cmd, cwd=r.dir, env=v.go_env(), timeout=3000)
            if rc != 0:
                raise v.Inconclusive("wasm driver failed (rc=%s):\n%s" % (rc, out[-2000:]))
            return json.load(open(os.path.join(outdir, "gen.json")))
        g = drive(os.path.join(r.dir, "wt"))

        def brief(s):
            def a(x):
                if x["t"] == "string":
                    return bytes(x["s"]).decode("utf8", "replace")[:40]
                return x.get("lit") or x["t"]
            return {"scn": s["scn"], "via": s["via"], "fn": s["fn"], "args": [a(x) for x in s["args"]],
                    "ret": bytes(s["ret"]["s"]).decode("utf8", "replace")[:60] if s["ret"]["t"] == "string" else (s["ret"]["b"] if s["ret"]["t"] == "boolean" else s["ret"]["t"])}
        r.samples = [brief(s) for s in g.get("samples", [])]
        bad, nbad = v.validate_traces(r, g["files"], "WasmTrace.tla", "WasmTrace.cfg")
        r.nontrivial = sum(r.classes.values())
        if nbad.get("INC", 0):
            raise v.Inconclusive("inconclusive calls: %s" % [b for b in bad if b["p"] == "INC"][:3])
        mine = [b for b in bad if b["p"] == "C20"]
        seen, reported, cache = set(), 0, {}
        for b in mine:
            if b["file"] not in cache:
                cache[b["file"]] = v.read_events(b["file"])
            ev = cache[b["file"]][b["id"]]
            key = (ev["scn"], ev["via"])
            if key in seen or reported >= 5:
                continue
            seen.add(key)
            k = v.match_known("C20", ev, b["r"])
            if k is not None:
                if k["what"] not in [x["what"] for x in r.known]:
                    r.known.append(k)
                continue
            g2 = drive(os.path.join(r.dir, "repro-%d" % reported), only=ev["scn"])
            again = False
            for i2, f2 in enumerate(g2["files"]):
                rep, _, _ = v.validate_shard(r, 700 + reported * 10 + i2, f2, "WasmTrace.tla", "WasmTrace.cfg")
                again = again or any(x["p"] == "C20" for x in rep["bad"])
            if not again:
                raise v.Inconclusive("a rejected call did not reproduce in a fresh Node process: %s" % ev["scn"])
            d = os.path.join(v.ROOT, "replays", "C20")
            os.makedirs(d, exist_ok=True)
            path = os.path.join(d, hashlib.sha1((ev["scn"] + ev["via"] + b["r"]).encode()).hexdigest()[:12] + ".json")
            json.dump({"property": "C20", "tier": r.tier, "seed": r.seed, "scn": [ev["scn"]], "reason": b["r"], "call": brief(ev)}, open(path, "w"), indent=1)
            r.violations.append({"reason": b["r"], "replay": path, "event": brief(ev)})
            reported += 1
    return f


def install(v):
    C = v.CHECKS
    R = v.RULES

    LEM = ("lemmas", "Lemmas.tla", "Lemmas.cfg", {"workers": 1})
    WH = ("window-hotp", "WindowMC.tla", "Window_hotp.cfg", {"workers": 4})
    WT = ("window-totp", "WindowMC.tla", "Window_totp.cfg", {"workers": 4})
    WNS = ("window-neg-signed", "WindowMC.tla", "Window_Neg_signed.cfg", {"workers": 2, "expect_violation": "Invariant Inv is violated"})
    WNL = ("window-neg-noskewlimit", "WindowMC.tla", "Window_Neg_noskewlimit.cfg", {"workers": 2, "expect_violation": "Invariant Inv is violated"})
    C["C01"] = v.chk_lib(mcs=(LEM,), per_shard=600)
    C["C02"] = v.chk_lib(mcs=(LEM,), per_shard=500)
    C["C03"] = v.chk_lib(mcs=(WH, WNS), per_shard=400)
    C["C04"] = v.chk_lib(mcs=(WT, WNL), per_shard=400)
    C["C07"] = v.chk_lib(mcs=(LEM,), per_shard=500)
    C["C13"] = v.chk_lib(mcs=(WH, WT), per_shard=400)

    C["C05"] = v.chk_lib(mcs=(LEM,), per_shard=300)
    C["C06"] = v.chk_lib(mcs=(LEM,), per_shard=300)
    C["C14"] = v.chk_lib(mcs=(LEM,), per_shard=3000)
    C["C15"] = v.chk_lib(mcs=(LEM,), per_shard=600)

    C["C18"] = check_rest(v, "C18")
    C["C19"] = check_rest(v, "C19")
    v.REPLAYS["C18"] = lambda r, rp: (check_rest(v, "C18")(r), bool(r.violations))[1]
    v.REPLAYS["C19"] = lambda r, rp: (check_rest(v, "C19")(r), bool(r.violations))[1]
    C["C20"] = check_c20(v)
    v.REPLAYS["C20"] = lambda r, rp: (check_c20(v)(r), bool(r.violations))[1]
    C["C09"] = check_c09(v)
    v.REPLAYS["C09"] = lambda r, rp: (check_c09(v)(r), bool(r.violations))[1]
    C["C11"] = check_c11(v)
    v.REPLAYS["C11"] = replay_c11(v)
    C["C17"] = v.chk_lib(mcs=(LEM,), per_shard=500)
    C["C16"] = v.chk_lib(mcs=(LEM,), per_shard=600)
    C["C08"] = v.chk_lib(mcs=(LEM,), per_shard=400)
    C["C12"] = v.chk_lib(mcs=(LEM,), per_shard=300)
    C["C10"] = v.chk_lib(mcs=(LEM,), per_shard=1200)

    common = (" Every event is a distinct scenario (distinct abstract key, seeded); an event is non-trivial "
              "(decisive) when the specification demands one definite outcome for it (classes value / error / "
              "accept / refuse), i.e. it lies inside the property's domain and outside the regions the property "
              "leaves open; the count is made by the trace specification itself (variable cnt).")
    R["C01"] = ("GenerateHOTP on the real code over key classes (lengths 0..200 around hash and block sizes) x base32 "
                "spellings x counter anchors (0, 2^31, 2^32, 2^53, 2^63, 2^64-1 +-2) x digits 0..12,100,255 x hashes "
                "0..4,255 x nil/explicit parameters + seeded random; TLC recomputes key (base32), message, dynamic "
                "truncation, modulus and padding at real scale and compares." + common)
    R["C02"] = ("GenerateTOTP at instants k*p+{-2..2} for periods {0,1,2,29,30,31,59,60,3600,86400,2^31-1,2^31,2^32} "
                "and random, with sub-second parts, zones and monotonic readings varied; TLC checks the step by "
                "q*p <= t < q*p+p on 64-bit words and the code against HOTP at that step." + common)
    R["C03"] = ("ValidateHOTP with the submitted string = code of the counter at distance -(s+3)..(s+3) for windows "
                "0..10 at counter anchors (0, <s, 2^31, 2^32, 2^63-1, 2^63, 2^63+1, 2^64-1-s), plus 13 edit kinds, "
                "refused windows 11..2^64-1, nil parameters, unsupported digits/hashes; TLC builds the window's code "
                "set from the oracle digests and checks the iff." + common)
    R["C04"] = ("ValidateTOTP as C03 with distances in time steps, periods {0,1,30,60,3600,2^32}, steps n=s (window "
                "touching step 0) .. 2^62/p, refused skews, and the HMAC-evaluation counter <= 21 per call." + common)
    R["C07"] = ("DecodeSecret over every key length 0..256 x up to 12 spellings (padded, unpadded, partial padding, "
                "lower, mixed, surrounded by SP/TAB/LF/CRLF) and the invalid classes (every non-alphabet ASCII byte "
                "at first/middle/last position, impossible lengths, interior padding, non-ASCII letters that case-map "
                "into the alphabet); spelling groups on every entry point compared with the canonical spelling." + common)
    R["C13"] = ("Validation events of every failure cause (wrong code, wrong length, neighbour outside the window, bad "
                "hash, bad skew, bad digits, damaged secret) and accepting ones; TLC checks the verdict pair and "
                "searches every error text for the secret, the key (raw / hex) and every acceptable code." + common)
