"""Per-property wiring: which model configurations, which scenario generator, which trace spec."""


def install(v):
    C = v.CHECKS
    R = v.RULES

    C["C01"] = v.chk_lib(per_shard=600)
    C["C02"] = v.chk_lib(per_shard=500)
    C["C03"] = v.chk_lib(per_shard=400)
    C["C04"] = v.chk_lib(per_shard=400)
    C["C07"] = v.chk_lib(per_shard=500)
    C["C13"] = v.chk_lib(per_shard=400)

    C["C05"] = v.chk_lib(per_shard=300)
    C["C06"] = v.chk_lib(per_shard=300)
    C["C14"] = v.chk_lib(per_shard=3000)
    C["C15"] = v.chk_lib(per_shard=600)

    C["C17"] = v.chk_lib(per_shard=500)
    C["C16"] = v.chk_lib(per_shard=600)
    C["C08"] = v.chk_lib(per_shard=400)
    C["C12"] = v.chk_lib(per_shard=300)
    C["C10"] = v.chk_lib(per_shard=1200)

    common = (" Every event is a distinct scenario (distinct abstract key, seeded); an event is non-trivial "
              "(decisive) when the specification demands one definite outcome for it (classes value / error / "
              "accept / refuse), i.e. it lies inside the property's domain and outside the regions the property "
              "leaves open; the count is made by the trace specification itself (variable cnt).")
    R["C01"] = ("GenerateHOTP on the real code over key classes (lengths 0..200 around hash and block sizes) x base32 "
                "spellings x counter anchors (0, 2^31, 2^32, 2^53, 2^63, 2^64-1 +-2) x digits 0..12,100,255 x hashes "
                "0..4,255 x nil/explicit parameters + seeded random; TLC recomputes key (base32), message, dynamic "
                "truncation, modulus and padding at real scale and compares." + common)
    R["C02"] = ("GenerateTOTP at instants k*p+{-2..2} for periods {0,1,2,29,30,31,59,60,3600,86400,2^31-1,2^31,2^32} "
                "and random, with sub-second parts, zones and monotonic readings varied; TLC checks the step by "
                "q*p <= t < q*p+p on 64-bit words and the code against HOTP at that step." + common)
    R["C03"] = ("ValidateHOTP with the submitted string = code of the counter at distance -(s+3)..(s+3) for windows "
                "0..10 at counter anchors (0, <s, 2^31, 2^32, 2^63-1, 2^63, 2^63+1, 2^64-1-s), plus 13 edit kinds, "
                "refused windows 11..2^64-1, nil parameters, unsupported digits/hashes; TLC builds the window's code "
                "set from the oracle digests and checks the iff." + common)
    R["C04"] = ("ValidateTOTP as C03 with distances in time steps, periods {0,1,30,60,3600,2^32}, steps n=s (window "
                "touching step 0) .. 2^62/p, refused skews, and the HMAC-evaluation counter <= 21 per call." + common)
    R["C07"] = ("DecodeSecret over every key length 0..256 x up to 12 spellings (padded, unpadded, partial padding, "
                "lower, mixed, surrounded by SP/TAB/LF/CRLF) and the invalid classes (every non-alphabet ASCII byte "
                "at first/middle/last position, impossible lengths, interior padding, non-ASCII letters that case-map "
                "into the alphabet); spelling groups on every entry point compared with the canonical spelling." + common)
    R["C13"] = ("Validation events of every failure cause (wrong code, wrong length, neighbour outside the window, bad "
                "hash, bad skew, bad digits, damaged secret) and accepting ones; TLC checks the verdict pair and "
                "searches every error text for the secret, the key (raw / hex) and every acceptable code." + common)
