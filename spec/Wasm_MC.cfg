SPECIFICATION Spec
CONSTANT Export <- ExportOK
INVARIANT Inv
CHECK_DEADLOCK FALSE
