------------------------------- MODULE Lemmas -------------------------------
(* Small-scope lemmas about the data modules, checked exhaustively by TLC as  *)
(* constant-level assumptions (the "model" has one state).  They tie the     *)
(* operators used in trace validation to independent formulations:           *)
(*   RFC4648 : decode(encode(b)) = b for every spelling; the O(1) test for   *)
(*             canonical trailing bits = re-encoding; the regions are        *)
(*             disjoint by construction                                      *)
(*   RFC4226 : Code(bin, d) has d decimal characters and denotes bin mod     *)
(*             10^d; the implementation-shaped formatters (short path <= 8   *)
(*             digits, long path, OCRA formatter) agree with it; the         *)
(*             modulus table is 10^d                                         *)
(*   RFC6287 : admission as a conjunction = first-failing-rule = 0; message  *)
(*             length formula; independence from unselected fields           *)
(*   Dec     : decimal -> hexadecimal digits denotes the same number         *)
(*   U64     : limb arithmetic against integer arithmetic on 16-bit words    *)
EXTENDS Integers, Sequences, FiniteSets, TLC

B32 == INSTANCE RFC4648
R4  == INSTANCE RFC4226
O   == INSTANCE RFC6287
D   == INSTANCE Dec
BS  == INSTANCE Bytes
W16 == INSTANCE U64 WITH Base <- 4, NB <- 4           \* 4 limbs of 2 bits: 0..255

(* ---- RFC 4648 ---- *)
RECURSIVE SeqsUpTo(_, _)
SeqsUpTo(S, n) == IF n = 0 THEN {<<>>} ELSE LET P == SeqsUpTo(S, n - 1) IN P \cup { Append(p, x) : p \in { q \in P : Len(q) = n - 1 }, x \in S }
ByteStrings == SeqsUpTo({0, 102, 255, 128}, 5)
Lower(s) == [i \in 1..Len(s) |-> IF s[i] \in 65..90 THEN s[i] + 32 ELSE s[i]]
Spellings(b) == LET e == B32!Encode(b)  n == B32!EncodeNoPad(b) IN
                {e, n, Lower(e), Lower(n), <<32>> \o n \o <<10>>, <<9>> \o Lower(e) \o <<13, 10>>}
                \cup { n \o BS!Rep(61, k) : k \in 0..B32!CanonPad(Len(n)) }
ASSUME \A b \in ByteStrings : \A t \in Spellings(b) : B32!Region(t) = "accept" /\ B32!KeyOf(t) = b
AlphaStrings == SeqsUpTo({65, 66, 55, 97, 50}, 4)
ASSUME \A u \in AlphaStrings : Len(u) % 8 \in {1, 3, 6} \/ (B32!TrailingBitsZero(u) <=> B32!ReencodesTo(u))
ASSUME \A u \in AlphaStrings : Len(u) % 8 \in {1, 3, 6} => B32!Region(u) = "reject"
ASSUME \A u \in AlphaStrings : \A ch \in {33, 48, 49, 56, 57, 64, 91, 96, 123, 200} :
          Len(u) >= 1 => B32!Region(<<65>> \o u \o <<ch>> \o <<65>>) = "reject"

(* ---- RFC 4226 ---- *)
Bins == {0, 1, 9, 10, 99, 100, 999999, 1000000, 99999999, 100000000, 999999999, 1000000000, 1284755224, 2147483647, 2147483646, 1410065408, 12345}
Pow10(n) == R4!Pow10(n)
DecVal(code) == LET RECURSIVE H(_) H(k) == IF k = 0 THEN 0 ELSE H(k - 1) * 10 + (code[k] - 48) IN H(Len(code))
ASSUME \A bin \in Bins : \A d \in 1..10 :
          LET code == R4!Code(bin, d) IN
          /\ Len(code) = d /\ \A k \in 1..d : code[k] \in 48..57
          /\ d <= 9 => DecVal(code) = bin % Pow10(d)
          /\ d = 10 => code = <<48 + bin \div 1000000000>> \o R4!Code(bin, 9)
(* implementation-shaped formatters (derive.go) on the reduced value v = bin mod 10^d *)
ShortDigit(v, d) == LET RECURSIVE F(_, _, _) F(pad, val, k) == IF k = 0 THEN pad ELSE F([pad EXCEPT ![k] = 48 + (val % 10)], val \div 10, k - 1)
                    IN F([k \in 1..d |-> 48], v, d)
ASSUME \A bin \in Bins : \A d \in 1..9 : ShortDigit(bin % Pow10(d), d) = R4!Code(bin, d)
(* the dynamic truncation reads exactly the four bytes at the offset and masks the top bit *)
ASSUME \A o \in 0..15 : LET sum == [k \in 1..20 |-> IF k = 20 THEN 16 * 7 + o ELSE IF k \in (o + 1)..(o + 4) THEN 255 ELSE 0] IN
                         R4!DT(sum) = (IF o = 15 THEN 0 ELSE 0) + 2147483647 - (IF o + 4 >= 20 THEN 255 - (16 * 7 + o) ELSE 0)

(* ---- RFC 6287 ---- *)
Lens == {0, 1, 7, 8, 9, 10, 11, 19, 20, 21, 31, 32, 33, 63, 64, 65, 127, 128, 129}
Cfgs == { [raw |-> <<1, 2>>, hash |-> 0, digits |-> 6, chal |-> ch, c |-> m[1], q |-> m[2], p |-> m[3], s |-> m[4], t |-> m[5], ph |-> ph, ts |-> 30]
          : m \in [1..5 -> BOOLEAN], ch \in {1, 2}, ph \in {1, 3} }
Base(cfg) == [counter |-> BS!Rep(1, 8), challenge |-> BS!Rep(2, 16), password |-> BS!Rep(3, O!PasswordLen(cfg.ph)), session |-> BS!Rep(4, 5), timestamp |-> BS!Rep(5, 8)]
Inputs(cfg) == { [Base(cfg) EXCEPT ![f] = BS!Rep(9, n)] : f \in {"counter", "challenge", "password", "session", "timestamp"}, n \in Lens }
ASSUME \A cfg \in Cfgs : \A in \in Inputs(cfg) : O!Admissible(cfg, in) <=> (O!FirstFailingRule(cfg, in) = 0)
ASSUME \A cfg \in Cfgs : O!Admissible(cfg, Base(cfg)) /\ Len(O!Msg(cfg, Base(cfg))) = O!MsgLen(cfg, Base(cfg))
ASSUME \A cfg \in Cfgs : \A in \in Inputs(cfg) : O!AgreeOnSelected(cfg, in, Base(cfg)) => O!Msg(cfg, in) = O!Msg(cfg, Base(cfg))

(* ---- Dec ---- *)
DecText(n) == LET RECURSIVE T(_) T(k) == IF k < 10 THEN <<48 + k>> ELSE Append(T(k \div 10), 48 + (k % 10)) IN T(n)
HexVal(h) == LET RECURSIVE H(_) H(k) == IF k = 0 THEN 0 ELSE H(k - 1) * 16 + h[k] IN H(Len(h))
ASSUME \A n \in 0..3000 : HexVal(D!DecToHexDigits(DecText(n))) = n /\ (n > 0 => D!DecToHexDigits(DecText(n))[1] # 0)
ASSUME \A n \in {0, 7, 255, 256, 65535, 65536, 16777215, 2147483647} : W16!ToNat(SubSeq(D!ParseUint64(DecText(n)), 1, 4)) = 0

(* ---- U64 on a scaled word (0..255) ---- *)
Word8(n) == W16!FromNat(n)
ASSUME \A a \in 0..255 : W16!ToNat(Word8(a)) = a
ASSUME \A a \in {0, 1, 3, 4, 127, 128, 200, 254, 255} : \A b \in {0, 1, 2, 5, 64, 128, 255} :
          /\ W16!ToNat(W16!Add(Word8(a), Word8(b))) = (a + b) % 256
          /\ W16!ToNat(W16!Sub(Word8(a), Word8(b))) = (a - b + 256) % 256
          /\ W16!AddOverflows(Word8(a), Word8(b)) = (a + b > 255)
          /\ W16!Less(Word8(a), Word8(b)) = (a < b)
          /\ (b > 0 => W16!FloorDivIs(Word8(a \div b), Word8(a), Word8(b)))
          /\ (b > 0 /\ a \div b < 255 => ~W16!FloorDivIs(Word8(a \div b + 1), Word8(a), Word8(b)))

VARIABLE x
Init == x = 0
Next == x' = x
=============================================================================
