------------------------------ MODULE LibTrace ------------------------------
(* Trace validation of package otp at real scale.                            *)
(*                                                                           *)
(* The trace (ndjson, one event per completed public call, recorded by the   *)
(* harness from the real code at the call's return -- the linearization      *)
(* point of a sequential library, error and panic paths included) is         *)
(* consumed one line per step.  Every clause of Lib is evaluated on every    *)
(* event.  A failing clause does not stop the run: it is appended to  bad    *)
(* with the property it belongs to, and the next line is examined, so the    *)
(* whole trace is always checked.  The run is accepted when every line was   *)
(* consumed and  bad  is empty (the report is written in the final state).   *)
EXTENDS Lib, TLC, Json, IOUtils

Trace == ndJsonDeserialize(IOEnv.VERIF_TRACE)

VARIABLES l,        \* next line of the trace
          bad,      \* failed clauses so far: [id, p, r]  (the first MaxBad of them; all are counted in nbad)
          nbad,     \* number of failed clauses per property
          cnt,      \* decisive events per expectation class
          canon     \* C07: observation of the canonical spelling of the current spelling group

vars == <<l, bad, nbad, cnt, canon>>

MaxBad == 60

(* ---- binding of logged fields ---- *)
OLook(orc, a, k, m) ==
    LET hits == { i \in DOMAIN orc : orc[i][1] = a /\ orc[i][2] = k /\ orc[i][3] = m } IN
    IF hits = {} THEN NoDigest ELSE orc[CHOOSE i \in hits : TRUE][4]

P(e) == [nil |-> e.pnil, digits |-> e.digits, alg |-> e.alg, skew |-> e.skew, period |-> e.period]
Reply(e) == [kind |-> e.kind, ok |-> e.ok, haserr |-> e.haserr, val |-> e.val, err |-> e.err]

F(cond, e, p, r) == IF cond THEN <<>> ELSE << [id |-> e.id, p |-> p, r |-> r, want |-> <<>>] >>
FX(cond, e, p, r, x) == IF cond THEN <<>> ELSE << [id |-> e.id, p |-> p, r |-> r, want |-> x] >>

(* ---- expectation of an event ---- *)
Expect(e) ==
    LET Hm(a, k, m) == OLook(e.orc, a, k, m) IN
    CASE e.op = "GenerateHOTP" -> GenHOTPExpect(Hm, e.secret, e.ctr, P(e))
      [] e.op = "GenerateTOTP" -> GenTOTPExpect(Hm, e.secret, e.sec, e.step, P(e))
      [] e.op = "ValidateHOTP" -> ValHOTPExpect(Hm, e.secret, e.code, e.ctr, P(e))
      [] e.op = "ValidateTOTP" -> ValTOTPExpect(Hm, e.secret, e.code, e.sec, e.step, P(e))
      [] e.op = "DecodeSecret" -> DecodeExpect(e.secret)
      [] OTHER -> AnyX

OwnProp(e) == CASE e.op = "GenerateHOTP" -> "C01" [] e.op = "GenerateTOTP" -> "C02"
                [] e.op = "ValidateHOTP" -> "C03" [] e.op = "ValidateTOTP" -> "C04"
                [] e.op = "DecodeSecret" -> "C07" [] OTHER -> "C10"

IsValidate(e) == e.op \in {"ValidateHOTP", "ValidateTOTP", "ValidateOCRA"}

(* the implementation's own HMAC invocations, observed through the verif hook *)
(* e.mac = <<[slot, key, msg, sum], ...>>, e.macn = number of invocations, -1 = not observed *)
StageFails(e, x) ==
    IF e.macn < 0 \/ x.class \notin {"value", "accept", "refuse"} \/ B32!Region(e.secret) # "accept"
    THEN <<>>
    ELSE LET key == B32!KeyOf(e.secret)
             rp  == IF e.op \in {"GenerateHOTP", "ValidateHOTP"} THEN ResolveHOTP(P(e)) ELSE ResolveTOTP(P(e))
         IN  F(\A i \in DOMAIN e.mac : e.mac[i][2] = key, e, OwnProp(e), "HMAC keyed with something else than the decoded secret")
          \o F(\A i \in DOMAIN e.mac : e.mac[i][1] = rp.alg, e, OwnProp(e), "HMAC of another hash than requested")
          \o F(\A i \in DOMAIN e.mac : OLook(e.orc, e.mac[i][1], e.mac[i][2], e.mac[i][3]) \in {NoDigest, e.mac[i][4]},
               e, OwnProp(e), "observed digest differs from HMAC(key, msg)")
          \o (IF e.op = "GenerateHOTP" /\ x.class = "value"
              THEN F(e.macn = 1 /\ e.mac[1][3] = e.ctr, e, "C01", "message is not the 8-byte big-endian counter")
              ELSE <<>>)
          \o (IF e.op = "GenerateTOTP" /\ x.class = "value"
              THEN F(e.macn = 1 /\ e.mac[1][3] = e.step, e, "C02", "message is not the big-endian time step floor(t/period)")
              ELSE <<>>)

Fails(e, x) ==
    LET r == Reply(e)
    IN  F(x.class # "miss", e, "INC", "HMAC table lacks an entry the specification needs")
     \o F(x.class # "badhint", e, "INC", "harness step hint is not floor(t/period)")
     \o F(Returned(r), e, "C10", "operation did not return normally: " \o e.kind)
     \o FX(Conforms(r, x), e, OwnProp(e), "reply differs from specification, expected class " \o x.class, x)
     \o (IF IsValidate(e) /\ Returned(r)
         THEN F(r.ok <=> ~r.haserr, e, "C13", "ambiguous verdict pair") ELSE <<>>)
     \o (IF e.op = "ValidateTOTP" /\ e.macn >= 0
         THEN F(e.macn <= MaxWork, e, "C04", "more than 21 HMAC evaluations in one validation") ELSE <<>>)
     \o StageFails(e, x)

(* C07: all spellings of one secret are seen alike by an entry point: the    *)
(* first event of a spelling group (e.grp > 0, e.first) is the canonical     *)
(* spelling; every later member must produce the same observation.           *)
Obs(e) == [kind |-> e.kind, ok |-> e.ok, haserr |-> e.haserr, val |-> e.val,
           keys |-> { e.mac[i][2] : i \in DOMAIN e.mac }]
GroupFails(e) ==
    IF e.grp = 0 \/ e.first \/ B32!Region(e.secret) # "accept" THEN <<>>
    ELSE F(canon = Obs(e), e, "C07", "a spelling of the same secret is treated differently from the canonical spelling")

PropIds == {"C01", "C02", "C03", "C04", "C05", "C06", "C07", "C08", "C10", "C11", "C12", "C13", "C14",
            "C15", "C16", "C17", "INC"}

Decisive(x) == x.class \in {"value", "error", "errorNV", "accept", "refuse"}

(* eager (EXCEPT-based) counting: lazily built functions in the state would chain from state to state *)
RECURSIVE Bump(_, _)
Bump(nb, new) == IF new = <<>> THEN nb ELSE Bump([nb EXCEPT ![Head(new).p] = @ + 1], Tail(new))

Init == /\ l = 1
        /\ bad = <<>>
        /\ nbad = [p \in PropIds |-> 0]
        /\ cnt = [c \in {"value", "error", "errorNV", "accept", "refuse", "any", "miss", "badhint"} |-> 0]
        /\ canon = [kind |-> "none"]

Step == /\ l <= Len(Trace)
        /\ LET e == Trace[l]
               x == Expect(e)
               new == Fails(e, x) \o GroupFails(e)
           IN  /\ bad' = IF Len(bad) < MaxBad THEN bad \o new ELSE bad
               /\ nbad' = Bump(nbad, new)
               /\ cnt' = [cnt EXCEPT ![x.class] = @ + 1]
               /\ canon' = IF e.grp > 0 /\ e.first THEN Obs(e) ELSE canon
        /\ l' = l + 1

Next == Step
Spec == Init /\ [][Next]_vars

(* written exactly once, in the state after the last line                    *)
Report == (l = Len(Trace) + 1) =>
            ndJsonSerialize(IOEnv.VERIF_REPORT,
                            << [consumed |-> l - 1, total |-> Len(Trace), bad |-> bad, nbad |-> nbad, cnt |-> cnt] >>)
=============================================================================
