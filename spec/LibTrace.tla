------------------------------ MODULE LibTrace ------------------------------
(* Trace validation of package otp at real scale.                            *)
(*                                                                           *)
(* The trace (ndjson, one event per completed public call, recorded by the   *)
(* harness from the real code at the call's return -- the linearization      *)
(* point of a sequential library, error and panic paths included) is         *)
(* consumed one line per step.  Every clause of Lib is evaluated on every    *)
(* event.  A failing clause does not stop the run: it is appended to  bad    *)
(* with the property it belongs to, and the next line is examined, so the    *)
(* whole trace is always checked.  The run is accepted when every line was   *)
(* consumed and  bad  is empty (the report is written in the final state).   *)
EXTENDS LibJudge, Json, IOUtils

Trace == ndJsonDeserialize(IOEnv.VERIF_TRACE)

VARIABLES l,        \* next line of the trace
          bad,      \* failed clauses so far: [id, p, r]  (the first MaxBad of them; all are counted in nbad)
          nbad,     \* number of failed clauses per property
          cnt,      \* decisive events per expectation class
          canon,    \* C07: observation of the canonical spelling of the current spelling group
          usedIv,   \* C08: half-open intervals <<lo, hi>> of the random stream consumed by secrets so far
          solo      \* C11: what each planned call returned when it was run alone (plan index -> observation)

vars == <<l, bad, nbad, cnt, canon, usedIv, solo>>

MaxBad == 60

(* ---- C08: random secrets are full-length output of the random source ---- *)
(* e.y.reads = <<<<offset, length>>, ...>> : the reads of the substituted      *)
(* crypto/rand.Reader made during this call; e.y.bytes = what they delivered  *)
RECURSIVE SumLens(_, _)
SumLens(rd, k) == IF k = 0 THEN 0 ELSE SumLens(rd, k - 1) + rd[k][2]
Ivs(rd) == { <<rd[i][1], rd[i][1] + rd[i][2]>> : i \in { j \in DOMAIN rd : rd[j][2] > 0 } }
DisjointIv(a, b) == a[2] <= b[1] \/ b[2] <= a[1]
LinByte(i) == (i * 7 + 13) % 256
RECURSIVE LinBytes(_, _)
LinBytes(rd, k) == IF k = 0 THEN <<>> ELSE LinBytes(rd, k - 1) \o [j \in 1..rd[k][2] |-> LinByte(rd[k][1] + j - 1)]
RECURSIVE SumIv(_)
SumIv(S) == IF S = {} THEN 0 ELSE LET a == CHOOSE x \in S : TRUE IN (a[2] - a[1]) + SumIv(S \ {a})

RandFails(e) ==
    IF e.op = "RandomSecret" THEN
        LET n == SecretSize(e.x.alg)
            rd == e.y.reads
        IN  IF n < 0
            THEN F(e.kind = "error" /\ e.val = <<>> /\ rd = <<>>, e, "C08", "an unsupported hash must yield an error, no secret, and consume nothing")
            ELSE F(e.kind = "value", e, "C08", "no secret for a supported hash")
              \o (IF e.kind # "value" THEN <<>> ELSE
                   F(SumLens(rd, Len(rd)) = n /\ Len(e.y.bytes) = n, e, "C08", "the secret does not take exactly 20/32/64 bytes from the random source")
                \o F(e.val = B32!EncodeNoPad(e.y.bytes), e, "C08", "the secret is not the upper-case unpadded base32 of exactly the bytes taken from the random source")
                \o F(B32!Region(e.val) = "accept" /\ B32!KeyOf(e.val) = e.y.bytes, e, "C08", "secret decoding does not map the secret back to the bytes taken")
                \o F(\A a \in Ivs(rd) : \A b \in (usedIv \cup Ivs(rd)) \ {a} : DisjointIv(a, b), e, "C08", "a byte of the random source is used twice")
                \o (IF e.x.conc THEN F(e.val = B32!EncodeNoPad(e.y.bytes), e, "C11", "a secret generated concurrently with others is not made of the bytes its own call took from the random source") ELSE <<>>)
                \o (IF e.x.stream = "lin" THEN F(e.y.bytes = LinBytes(rd, Len(rd)), e, "C08", "bytes differ from the stream content at the offsets read") ELSE <<>>))
    ELSE IF e.op = "StreamEnd" THEN
        F(SumIv(usedIv) = e.x.pos, e, "C08", "bytes were taken from the random source that are in no secret (or the reverse)")
    ELSE <<>>

(* C07: all spellings of one secret are seen alike by an entry point: the    *)
(* first event of a spelling group (e.grp > 0, e.first) is the canonical     *)
(* spelling; every later member must produce the same observation.           *)
Obs(e) == [kind |-> e.kind, ok |-> e.ok, haserr |-> e.haserr, val |-> e.val,
           keys |-> { e.mac[i][2] : i \in DOMAIN e.mac }]
GroupFails(e) ==
    IF e.grp = 0 \/ e.first \/ B32!Region(e.secret) # "accept" THEN <<>>
    ELSE F(canon = Obs(e), e, "C07", "a spelling of the same secret is treated differently from the canonical spelling")

PropIds == {"C01", "C02", "C03", "C04", "C05", "C06", "C07", "C08", "C10", "C11", "C12", "C13", "C14",
            "C15", "C16", "C17", "C20", "INC", "NONE"}

(* ---- C11: a call made concurrently returns exactly what it returns when called alone ---- *)
(* e.plan > 0: index of the call in the workload plan; e.phase = "solo" (the plan executed    *)
(* sequentially on one goroutine) or "conc" (the same plan on many goroutines with adversary *)
(* and collections)                                                                          *)
Obs11(e) == [kind |-> e.kind, ok |-> e.ok, haserr |-> e.haserr, val |-> e.val]
ConcFails(e) ==
    IF e.plan = 0 \/ e.phase # "conc" THEN <<>>
    ELSE IF e.plan \notin DOMAIN solo THEN F(FALSE, e, "INC", "concurrent event without its solo twin")
    ELSE F(solo[e.plan] = Obs11(e), e, "C11", "a concurrent call returned something else than the same call run alone")

Decisive(x) == x.class \in {"value", "error", "errorNV", "accept", "refuse", "panics"}

(* eager (EXCEPT-based) counting: lazily built functions in the state would chain from state to state *)
RECURSIVE Bump(_, _)
Bump(nb, new) == IF new = <<>> THEN nb ELSE Bump([nb EXCEPT ![Head(new).p] = @ + 1], Tail(new))

Init == /\ l = 1
        /\ bad = <<>>
        /\ nbad = [p \in PropIds |-> 0]
        /\ cnt = [c \in {"value", "error", "errorNV", "accept", "refuse", "any", "miss", "badhint", "row", "panics"} |-> 0]
        /\ canon = [kind |-> "none"]
        /\ usedIv = {}
        /\ solo = <<>>

Step == /\ l <= Len(Trace)
        /\ LET e == Trace[l]
               x == Expect(e)
               new == Fails(e, x) \o GroupFails(e) \o AdmitFails(e) \o SuiteFails(e) \o HexFieldFails(e) \o URLFails(e) \o FrameFails(e) \o LeakFails(e) \o RandFails(e) \o ConcFails(e)
           IN  /\ bad' = IF Len(bad) < MaxBad THEN bad \o new ELSE bad
               /\ nbad' = Bump(nbad, new)
               /\ cnt' = [cnt EXCEPT ![x.class] = @ + 1]
               /\ canon' = IF e.grp > 0 /\ e.first THEN Obs(e) ELSE canon
               /\ solo' = IF e.plan > 0 /\ e.phase = "solo" THEN (IF e.plan = 1 THEN <<Obs11(e)>> ELSE Append(solo, Obs11(e))) ELSE solo
               /\ usedIv' = IF e.op = "RandomSecret" /\ e.kind = "value" THEN usedIv \cup Ivs(e.y.reads)
                            ELSE IF e.op = "StreamEnd" THEN {} ELSE usedIv
        /\ l' = l + 1

Next == Step
Spec == Init /\ [][Next]_vars

(* written exactly once, in the state after the last line                    *)
Report == (l = Len(Trace) + 1) =>
            ndJsonSerialize(IOEnv.VERIF_REPORT,
                            << [consumed |-> l - 1, total |-> Len(Trace), bad |-> bad, nbad |-> nbad, cnt |-> cnt] >>)
=============================================================================
