SPECIFICATION Spec
CONSTANTS
  Variant = "hotp"
  Limit = 2
INVARIANT Inv
CHECK_DEADLOCK FALSE
