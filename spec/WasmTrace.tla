------------------------------ MODULE WasmTrace ------------------------------
(* The WebAssembly / JavaScript binding (property C20): the five functions    *)
(* the wasm build registers on globalThis and the JS package re-exports,      *)
(* specified as an argument-marshalling layer (type / count / range errors    *)
(* are strings starting "error:") composed with the Lib operators of the      *)
(* NATIVE library.  One event per call made under Node, via "global" or via   *)
(* the object returned by the package's entry module ("package"); both are    *)
(* judged by the same specification, so a crossed export is a violation.      *)
(* args[i] = [t, s, lit, w, neg, frac, b]; ret = [t, s, b].                   *)
EXTENDS LibJudge, Json, IOUtils

Trace == ndJsonDeserialize(IOEnv.VERIF_TRACE)
VARIABLES l, bad, nbad, cnt
vars == <<l, bad, nbad, cnt>>
MaxBad == 60
FW(cond, e, r) == IF cond THEN <<>> ELSE << [id |-> e.id, p |-> "C20", r |-> r, want |-> <<>>] >>

tError == <<101, 114, 114, 111, 114, 58>>                              \* "error:"
IsErr(ret) == ret.t = "string" /\ HasPrefix(ret.s, tError)
RetStr(ret, s) == ret.t = "string" /\ ret.s = s
RetBool(ret, v) == ret.t = "boolean" /\ ret.b = v

(* marshalling: a string argument must be a non-empty JS string, a number argument a finite,  *)
(* non-negative JS number (fractions are truncated)                                           *)
StrArg(a) == a.t = "string" /\ a.s # <<>>
NumArg(a) == a.t = "number" /\ ~a.neg
Shape(fn) == CASE fn = "generateHOTP" -> <<"s", "n", "s", "s">>
               [] fn = "generateTOTP" -> <<"s", "n", "s", "s", "n">>
               [] fn = "validateHOTP" -> <<"s", "s", "n", "s", "s", "n">>
               [] fn = "validateTOTP" -> <<"s", "s", "n", "s", "s", "n", "n">>
               [] fn = "generateOTPURL" -> <<"s", "s", "s", "s", "s", "s">>
Marshals(e) == /\ Len(e.args) = Len(Shape(e.fn))
               /\ \A i \in 1..Len(e.args) : IF Shape(e.fn)[i] = "s" THEN StrArg(e.args[i]) ELSE NumArg(e.args[i])
SmallNum(a, lo, hi) == W!IsSmall(a.w) /\ W!ToNat(a.w) \in lo..hi

tTotp == <<116, 111, 116, 112>>
tHotp == <<104, 111, 116, 112>>

(* outcome: "ok", "inc", or a reason *)
Outcome(e) ==
    LET Hm(a, k, m) == OLook(e.orc, a, k, m)
        A == e.args
        ret == e.ret
    IN
    IF e.ret.t = "hang" THEN "the call into the module did not return (the Node process had to be killed)"
    ELSE IF e.ret.t = "loadfail" THEN "the module / the package's entry module does not initialise (an expected export is missing?)"
    ELSE IF e.ret.t \in {"missing", "nofunction", "exception"} THEN "the call did not return a value (missing export or exception)"
    ELSE IF ~Marshals(e) THEN (IF IsErr(ret) THEN "ok" ELSE "a call with an argument of the wrong type or count is not answered with an error: string")
    ELSE CASE e.fn = "generateHOTP" ->
              LET x == GenAtCounter(Hm, A[1].s, A[2].w, AlgFromStr(A[4].s), DigitsFromStr(A[3].s)) IN
              CASE x.class = "value" -> IF RetStr(ret, x.val) THEN "ok" ELSE "generateHOTP differs from the native code"
                [] x.class = "errorNV" -> IF IsErr(ret) THEN "ok" ELSE "generateHOTP returns a code where the native library fails"
                [] x.class = "miss" -> "inc" [] OTHER -> "ok"
           [] e.fn = "generateTOTP" ->
              IF ~SmallNum(A[5], 1, 3600) THEN (IF IsErr(ret) THEN "ok" ELSE "a period outside 1..3600 is not refused")
              ELSE IF ~StepIs(e.step0, A[2].w, A[5].w) THEN "inc"
              ELSE LET x == GenAtCounter(Hm, A[1].s, e.step0, AlgFromStr(A[4].s), DigitsFromStr(A[3].s)) IN
              CASE x.class = "value" -> IF RetStr(ret, x.val) THEN "ok" ELSE "generateTOTP differs from the native code"
                [] x.class = "errorNV" -> IF IsErr(ret) THEN "ok" ELSE "generateTOTP returns a code where the native library fails"
                [] x.class = "miss" -> "inc" [] OTHER -> "ok"
           [] e.fn = "validateHOTP" ->
              IF ~SmallNum(A[6], 0, 10) THEN (IF IsErr(ret) THEN "ok" ELSE "a skew outside 0..10 is not refused")
              ELSE LET x == ValHOTPExpect(Hm, A[1].s, A[2].s, A[3].w,
                                          [nil |-> FALSE, digits |-> DigitsFromStr(A[4].s), alg |-> AlgFromStr(A[5].s), skew |-> A[6].w, period |-> W!Zero]) IN
              CASE x.class = "accept" -> IF RetBool(ret, TRUE) THEN "ok" ELSE "validateHOTP rejects a code the native library accepts"
                [] x.class = "refuse" -> IF RetBool(ret, FALSE) \/ IsErr(ret) THEN "ok" ELSE "validateHOTP accepts a code the native library rejects"
                [] x.class = "miss" -> "inc" [] OTHER -> "ok"
           [] e.fn = "validateTOTP" ->
              IF ~SmallNum(A[6], 0, 10) THEN (IF IsErr(ret) THEN "ok" ELSE "a skew outside 0..10 is not refused")
              ELSE IF A[7].w = W!Zero THEN (IF IsErr(ret) THEN "ok" ELSE "period 0 is not refused")
              ELSE IF ~SmallNum(A[7], 1, 3600) THEN "ok"                     \* validation period above 3600: not in the common domain
              ELSE IF ~StepIs(e.step0, A[3].w, A[7].w) THEN "inc"
              ELSE LET x == ValTOTPExpect(Hm, A[1].s, A[2].s, A[3].w, e.step0,
                                          [nil |-> FALSE, digits |-> DigitsFromStr(A[4].s), alg |-> AlgFromStr(A[5].s), skew |-> A[6].w, period |-> A[7].w]) IN
              CASE x.class = "accept" -> IF RetBool(ret, TRUE) THEN "ok" ELSE "validateTOTP rejects a code the native library accepts"
                [] x.class = "refuse" -> IF RetBool(ret, FALSE) \/ IsErr(ret) THEN "ok" ELSE "validateTOTP accepts a code the native library rejects"
                [] x.class = "miss" -> "inc"
                [] OTHER ->          \* where the specification leaves the native verdict open (window below step 0), the binding must
                                     \* still give the verdict the native library of the same tree gives (recorded in e.nat)
                     IF e.nat.t = "boolean" /\ ~(RetBool(ret, e.nat.b) \/ (~e.nat.b /\ IsErr(ret)))
                     THEN "validateTOTP disagrees with the native library's verdict" ELSE "ok"
           [] e.fn = "generateOTPURL" ->
              IF A[1].s \notin {tTotp, tHotp} THEN (IF IsErr(ret) THEN "ok" ELSE "an OTP type other than totp/hotp is not refused")
              ELSE IF 58 \in { A[2].s[i] : i \in 1..Len(A[2].s) } THEN "ok"
              ELSE IF ret.t = "string" /\ e.up.ok /\ e.up.host = A[1].s /\ e.up.issuer = A[2].s /\ e.up.account = A[3].s /\ e.up.secret = A[4].s
                      /\ e.up.digits = DigitsFromStr(A[5].s) /\ e.up.alg = AlgFromStr(A[6].s) /\ e.up.period = DefaultPeriod
                   THEN "ok" ELSE "generateOTPURL does not return the native library's URL for these fields"
           [] OTHER -> "ok"

WFails(e) == LET o == Outcome(e) IN
            IF o = "ok" THEN <<>> ELSE IF o = "inc" THEN << [id |-> e.id, p |-> "INC", r |-> "oracle table miss or bad hint", want |-> <<>>] >>
            ELSE FW(FALSE, e, o)

RECURSIVE Bump(_, _)
Bump(nb, new) == IF new = <<>> THEN nb ELSE Bump([nb EXCEPT ![Head(new).p] = @ + 1], Tail(new))
Class(e) == IF e.probe THEN "probe" ELSE IF Marshals(e) THEN "common" ELSE "malformed"

Init == l = 1 /\ bad = <<>> /\ nbad = [p \in {"C20", "INC"} |-> 0] /\ cnt = [c \in {"probe", "common", "malformed"} |-> 0]
Step == /\ l <= Len(Trace)
        /\ LET e == Trace[l]  new == WFails(e) IN
             /\ bad' = IF Len(bad) < MaxBad THEN bad \o new ELSE bad
             /\ nbad' = Bump(nbad, new)
             /\ cnt' = [cnt EXCEPT ![Class(e)] = @ + 1]
        /\ l' = l + 1
Spec == Init /\ [][Step]_vars
Report == (l = Len(Trace) + 1) =>
            ndJsonSerialize(IOEnv.VERIF_REPORT, << [consumed |-> l - 1, total |-> Len(Trace), bad |-> bad, nbad |-> nbad, cnt |-> cnt] >>)
=============================================================================
