SPECIFICATION GSpec
CONSTANTS
  Caller = {1, 2, 3}
  Buf = {b1, b2, b3, b4}
  MaxCalls = 3
  Deviation = {}
  Depth = 40
INVARIANT Dump
CHECK_DEADLOCK FALSE
