SPECIFICATION Spec
CONSTANTS
  Req = {r1, r2}
  Skews = {0, 1, 2, 3, 5}
  SkewLimit = 2
  Guard = FALSE
  Workers = 2
INVARIANT Inv
CHECK_DEADLOCK FALSE
