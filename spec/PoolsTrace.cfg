SPECIFICATION Spec
INVARIANT Inv
INVARIANT NotDone
CHECK_DEADLOCK FALSE
