---------------------------- MODULE WindowLemma ----------------------------
(* Unbounded form of the window identity used by C03/C04: the set of counters *)
(* the validation loop visits (c+i for i in -s..s, skipping negative ones) is *)
(* exactly the declarative window  max(0, c-s) .. c+s.  Proved with TLAPS     *)
(* (SMT back end); the bounded, wrap-around version is model-checked in       *)
(* WindowMC.                                                                  *)
EXTENDS Integers, TLAPS

Max(a, b) == IF a >= b THEN a ELSE b
Visited(c, s) == { c + i : i \in { j \in (-s)..s : c + j >= 0 } }
Declared(c, s) == Max(0, c - s)..(c + s)

THEOREM WindowIdentity == \A c \in Nat, s \in Nat : Visited(c, s) = Declared(c, s)
<1> SUFFICES ASSUME NEW c \in Nat, NEW s \in Nat PROVE Visited(c, s) = Declared(c, s)
  OBVIOUS
<1>1. \A x \in Visited(c, s) : x \in Declared(c, s)
  BY DEF Visited, Declared, Max
<1>2. \A x \in Declared(c, s) : x \in Visited(c, s)
  <2> SUFFICES ASSUME NEW x \in Declared(c, s) PROVE x \in Visited(c, s)
    OBVIOUS
  <2>1. x \in Int /\ x >= 0 /\ x >= c - s /\ x <= c + s
    BY DEF Declared, Max
  <2>2. (x - c) \in (-s)..s /\ c + (x - c) >= 0 /\ x = c + (x - c)
    BY <2>1
  <2> QED BY <2>2 DEF Visited
<1> QED BY <1>1, <1>2
=============================================================================
