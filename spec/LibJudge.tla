------------------------------ MODULE LibJudge ------------------------------
(* Stateless part of trace validation: binding of the logged fields of one   *)
(* event to the arguments of the Lib operators, and the clauses evaluated on *)
(* every event.  Shared by LibTrace (sequential library traces), PoolsTrace  *)
(* (gate-level concurrent replays), RestTrace and WasmTrace.                 *)
EXTENDS Lib, TLC

(* ---- binding of logged fields ---- *)
OLook(orc, a, k, m) ==
    LET hits == { i \in DOMAIN orc : orc[i][1] = a /\ orc[i][2] = k /\ orc[i][3] = m } IN
    IF hits = {} THEN NoDigest ELSE orc[CHOOSE i \in hits : TRUE][4]

P(e) == [nil |-> e.pnil, digits |-> e.digits, alg |-> e.alg, skew |-> e.skew, period |-> e.period]
Reply(e) == [kind |-> e.kind, ok |-> e.ok, haserr |-> e.haserr, val |-> e.val, err |-> e.err]

F(cond, e, p, r) == IF cond THEN <<>> ELSE << [id |-> e.id, p |-> p, r |-> r, want |-> <<>>] >>
FX(cond, e, p, r, x) == IF cond THEN <<>> ELSE << [id |-> e.id, p |-> p, r |-> r, want |-> x] >>

(* ---- expectation of an event ---- *)
Expect(e) ==
    LET Hm(a, k, m) == OLook(e.orc, a, k, m) IN
    CASE e.op = "GenerateHOTP" -> GenHOTPExpect(Hm, e.secret, e.ctr, P(e))
      [] e.op = "GenerateTOTP" -> GenTOTPExpect(Hm, e.secret, e.sec, e.step, P(e))
      [] e.op = "ValidateHOTP" -> ValHOTPExpect(Hm, e.secret, e.code, e.ctr, P(e))
      [] e.op = "ValidateTOTP" -> ValTOTPExpect(Hm, e.secret, e.code, e.sec, e.step, P(e))
      [] e.op = "DecodeSecret" -> DecodeExpect(e.secret)
      \* the two functions that exist only in the js/wasm build (the engine of the JavaScript binding); e.secret is
      \* the canonical base32 of the raw key they are given; e.x.dcls = the code length if it is 1..10, else 0
      [] e.op = "DeriveWasm" -> IF e.x.dcls = 0 THEN AnyX ELSE GenAtCounter(Hm, e.secret, e.ctr, e.alg, e.x.dcls)
      [] e.op = "ValidateWasm" -> IF e.x.dcls = 0 THEN AnyX
                                  ELSE ValidateAt(Hm, e.secret, e.code, e.ctr, e.alg, e.x.dcls, W!Zero, TRUE)
      [] e.op = "GenerateOCRA" -> GenOCRAExpect(Hm, e.secret, e.x.su, e.x.in)
      [] e.op = "ValidateOCRA" -> ValOCRAExpect(Hm, e.secret, e.code, e.x.su, e.x.in)
      [] e.op = "OCRAQuestion" ->                      \* helper + generation end to end (C17)
            IF DecChallengeExpect(e.x.q).class # "value" THEN AnyX
            ELSE GenOCRAExpect(Hm, e.secret, e.x.su, [e.x.in EXCEPT !.challenge = D!NumericQuestion(e.x.q)])
      [] e.op = "InputValidate" -> InputValidateExpect(e.x.cfg, e.x.in)
      [] e.op \in {"SuiteValidate", "NewSuite"} -> SuiteValidateExpect(e.x.cfg)
      [] e.op = "To8BE" -> To8BEExpect(e.x.v)
      [] e.op \in {"ParseDec8", "ParseDec64"} -> ParseDec8Expect(e.x.s)
      [] e.op = "LeftPadHex" -> LeftPadHexExpect(e.x.s, e.x.w)
      [] e.op = "MustHexPadLeft" -> MustHexPadLeftExpect(e.x.s, e.x.size)
      [] e.op = "ParseHexTimestamp" -> ParseHexTimestampExpect(e.x.s)
      [] e.op = "ParseDecimalChallenge" -> DecChallengeExpect(e.x.s)
      [] e.op = "HexInputToOCRA" -> IF HexFieldsOK(e.x.f) THEN AnyX ELSE ErrorX    \* values: HexFieldFails
      [] e.op = "NewRawSuite" -> (CASE O!Reading(e.x.name).class = "malformed" -> ErrorX
                                    [] O!Reading(e.x.name).class = "wellformed" -> [class |-> "row"]   \* judged by SuiteFails
                                    [] OTHER -> AnyX)
      [] e.op \in {"URLRoundTrip", "URLParse", "RandomSecret"} -> [class |-> "row"]      \* judged by URLFails / RandFails
      [] e.op = "DigitsFromStr" -> Value(<<DigitsFromStr(e.x.s)>>)
      [] e.op = "AlgorithmFromStr" -> Value(<<AlgFromStr(e.x.s)>>)
      [] e.op = "AlgString" -> Value(AlgString(e.x.a))
      [] OTHER -> AnyX

OwnProp(e) == CASE e.op = "GenerateHOTP" -> "C01" [] e.op = "GenerateTOTP" -> "C02"
                [] e.op = "ValidateHOTP" -> "C03" [] e.op = "ValidateTOTP" -> "C04"
                [] e.op = "DecodeSecret" -> "C07"
                [] e.op = "GenerateOCRA" -> "C05" [] e.op = "ValidateOCRA" -> "C06"
                [] e.op \in {"InputValidate", "SuiteValidate", "NewSuite"} -> "C14"
                [] e.op = "NewRawSuite" -> "C15"
                [] e.op \in {"URLRoundTrip", "URLParse"} -> "C16"
                [] e.op \in {"To8BE", "ParseDec8", "ParseDec64", "LeftPadHex", "MustHexPadLeft", "ParseHexTimestamp",
                             "ParseDecimalChallenge", "HexInputToOCRA", "OCRAQuestion"} -> "C17"
                [] e.op = "RandomSecret" -> "C08"
                [] e.op \in {"DeriveWasm", "ValidateWasm"} -> "C20"
                [] OTHER -> "NONE"        \* operations no listed property owns functionally (only "returns normally", C10)

IsValidate(e) == e.op \in {"ValidateHOTP", "ValidateTOTP", "ValidateOCRA", "ValidateWasm"}

(* C13: the set of codes that would have been accepted by this call (for the disclosure clause) *)
AcceptableCodes(e) ==
    LET Hm(a, k, m) == OLook(e.orc, a, k, m) IN
    IF B32!Region(e.secret) # "accept" THEN {}
    ELSE CASE e.op \in {"ValidateHOTP", "GenerateHOTP"} ->
                LET rp == ResolveHOTP(P(e)) IN
                IF ~Supported(rp.alg, rp.digits) \/ W!Less(Ten, rp.skew) THEN {}
                ELSE WindowCodes(Hm, rp.alg, B32!KeyOf(e.secret), rp.digits,
                                 IF e.op = "GenerateHOTP" THEN {e.ctr} ELSE W!Window(e.ctr, W!ToNat(rp.skew))) \ {NoDigest}
           [] e.op \in {"ValidateTOTP", "GenerateTOTP"} ->
                LET rp == ResolveTOTP(P(e)) IN
                IF ~Supported(rp.alg, rp.digits) \/ W!Less(Ten, rp.skew) THEN {}
                ELSE WindowCodes(Hm, rp.alg, B32!KeyOf(e.secret), rp.digits,
                                 IF e.op = "GenerateTOTP" THEN {e.step} ELSE W!Window(e.step, W!ToNat(rp.skew))) \ {NoDigest}
           [] e.op \in {"ValidateOCRA", "GenerateOCRA"} ->
                LET g == GenOCRAExpect(Hm, e.secret, e.x.su, e.x.in) IN
                IF g.class = "value" THEN {g.val} ELSE {}
           [] OTHER -> {}
LeakFails(e) ==
    IF ~e.haserr \/ Len(e.secret) = 0 THEN <<>>
    ELSE F(~Discloses(e.err, e.secret, IF B32!Region(e.secret) = "accept" THEN B32!KeyOf(e.secret) ELSE <<>>, AcceptableCodes(e)),
           e, "C13", "an error text contains the secret, the key or an acceptable code")

(* the implementation's own HMAC invocations, observed through the verif hook *)
(* e.mac = <<[slot, key, msg, sum], ...>>, e.macn = number of invocations, -1 = not observed *)
StageFails(e, x) ==
    (* e.macn >= 1: the hook observed HMAC evaluations.  0 means the call did not go through the observed      *)
    (* constructor (nothing to compare), -1 that no hook is installed.  How often HMAC is evaluated is not      *)
    (* constrained here (only C04's work bound is); SOME evaluation must be the one the property describes.     *)
    IF e.macn < 1 \/ x.class \notin {"value", "accept", "refuse"} \/ B32!Region(e.secret) # "accept"
       \/ e.op \notin {"GenerateHOTP", "ValidateHOTP", "GenerateTOTP", "ValidateTOTP", "GenerateOCRA", "ValidateOCRA"}
    THEN <<>>
    ELSE LET key == B32!KeyOf(e.secret)
             alg == CASE e.op \in {"GenerateHOTP", "ValidateHOTP"} -> ResolveHOTP(P(e)).alg
                      [] e.op \in {"GenerateTOTP", "ValidateTOTP"} -> ResolveTOTP(P(e)).alg
                      [] OTHER -> EffCfg(e.x.su).hash
             Has(m) == \E i \in DOMAIN e.mac : e.mac[i][1] = alg /\ e.mac[i][2] = key /\ e.mac[i][3] = m
         IN  F(\A i \in DOMAIN e.mac : OLook(e.orc, e.mac[i][1], e.mac[i][2], e.mac[i][3]) \in {NoDigest, e.mac[i][4]},
               e, OwnProp(e), "observed digest differs from HMAC(key, msg)")
          \o (IF e.op = "GenerateHOTP" /\ x.class = "value"
              THEN F(Has(e.ctr), e, "C01", "no HMAC evaluation with the requested hash over the 8-byte big-endian counter under the decoded secret")
              ELSE <<>>)
          \o (IF e.op = "GenerateTOTP" /\ x.class = "value"
              THEN F(Has(e.step), e, "C02", "no HMAC evaluation over the big-endian time step floor(t/period) under the decoded secret")
              ELSE <<>>)
          \o (IF e.op = "GenerateOCRA" /\ x.class = "value"
              THEN F(Has(O!Msg(EffCfg(e.x.su), e.x.in)), e, "C05",
                     "no HMAC evaluation over suite-string, 0x00, then the selected fields C Q P S T in the documented layout")
              ELSE <<>>)

Fails(e, x) ==
    LET r == Reply(e)
    IN  F(x.class # "miss", e, "INC", "HMAC table lacks an entry the specification needs")
     \o F(x.class # "badhint", e, "INC", "harness step hint is not floor(t/period)")
     \o F(Returned(r) \/ (x.class = "panics" /\ r.kind = "panic"), e, "C10", "operation did not return normally: " \o e.kind)
     \o FX(Conforms(r, x), e, OwnProp(e), "reply differs from specification, expected class " \o x.class, x)
     \o (IF IsValidate(e) /\ Returned(r)
         THEN F(r.ok <=> ~r.haserr, e, "C13", "ambiguous verdict pair") ELSE <<>>)
     \o (IF e.op = "ValidateTOTP" /\ e.macn >= 0
         THEN F(e.macn <= MaxWork, e, "C04", "more than 21 HMAC evaluations in one validation") ELSE <<>>)
     \o StageFails(e, x)

(* ---- C14 through the real entry point: generation succeeds exactly for usable suites and admissible inputs ---- *)
AdmitFails(e) ==
    IF e.op # "GenerateOCRA" \/ B32!Region(e.secret) # "accept" \/ ~Returned(Reply(e)) THEN <<>>
    ELSE LET cfg == EffCfg(e.x.su) IN
         IF ~O!EnumsInDomain(cfg) THEN <<>>
         ELSE F((e.kind = "value") <=> (O!SuiteUsable(cfg) /\ O!Admissible(cfg, e.x.in)), e, "C14",
                "generation succeeds although the suite is unusable or the input inadmissible, or fails although both are fine")

(* ---- C15: a suite's configuration means what its string says ---- *)
SuiteFails(e) ==
    IF e.op # "NewRawSuite" THEN <<>>
    ELSE LET rd == O!Reading(e.x.name)
             ok == e.kind = "value"
             y  == e.y
         IN  F(rd.class = "malformed" => ~ok, e, "C15", "a malformed suite string is accepted")
          \o F((ok /\ rd.class = "wellformed") => O!SameCfg(y.cfg, rd.cfg, rd.tsKnown), e, "C15",
               "the configuration differs from what the suite string says")
          \o F(ok => (y.str = e.x.name /\ y.cfg.raw = e.x.name), e, "C15", "a suite instantiated from a string does not report that string as its name")
          \o F(ok => O!SuiteUsable(y.cfg), e, "C15", "an accepted suite string yields an unusable configuration")
          \o F(y.inlist => ok, e, "C15", "an advertised suite name cannot be instantiated")
          \o F(y.inlist <=> y.known, e, "C15", "the advertised list and the known-suite test disagree")
          \o F((y.known /\ ok) => O!SameCfg(y.fromraws, y.cfg, TRUE), e, "C15", "lookup by name and instantiation disagree")
          \o F((ok <=> y.mustok) /\ (ok => y.mustcfg = y.cfg), e, "C15", "MustRawSuite and NewRawSuite disagree (one instantiates what the other refuses, or differently)")

(* ---- C17: the five hex request fields ---- *)
HexFieldFails(e) ==
    IF e.op # "HexInputToOCRA" \/ e.kind # "value" \/ ~HexFieldsOK(e.x.f) THEN <<>>
    ELSE F(e.y.f = HexFieldsValue(e.x.f), e, "C17", "a hex request field is not decoded into the corresponding byte field")

(* ---- C16: provisioning URLs ---- *)
URLFails(e) ==
    IF e.op = "URLRoundTrip" THEN
        LET p == e.x.p  y == e.y IN
        IF ~URLGenDefined(p) THEN F(~y.genok, e, "C16", "URL generated although issuer, account or secret is empty")
        ELSE IF ~URLInDomain(p) THEN <<>>
        ELSE F(y.genok, e, "C16", "URL generation failed for valid parameters")
          \o (IF ~y.genok THEN <<>> ELSE
               F(y.scheme = <<111, 116, 112, 97, 117, 116, 104>> /\ y.host = p.kindb, e, "C16", "scheme is not otpauth or type is not the requested one")
            \o F(y.parseok, e, "C16", "the generated URL does not parse back")
            \o (IF ~y.parseok THEN <<>> ELSE
                 F(y.issuer = p.issuer, e, "C16", "issuer does not round-trip")
              \o F(y.account = p.account, e, "C16", "account name does not round-trip")
              \o F(y.secret = p.secret, e, "C16", "secret does not round-trip")
              \o F(y.digits = NormDigits(p.digits), e, "C16", "code length does not round-trip (0 meaning 6)")
              \o F(y.alg = p.alg, e, "C16", "hash does not round-trip")
              \o F(y.period = NormPeriod(p.kind, p.period), e, "C16", "period does not round-trip (0 meaning 30)")))
    ELSE IF e.op = "URLParse" THEN
        LET x == e.x  y == e.y IN
        (IF ~x.hasDigits \/ x.digitsText = <<>> THEN <<>>                  \* an empty value is an absent value
         ELSE IF ~D!AtoiText(x.digitsText) THEN F(~y.ok, e, "C16", "non-numeric digits text accepted")
         ELSE IF D!AtoiNeg(x.digitsText) \/ D!SmallMag(x.digitsText) \notin 0..255 THEN F(~y.ok, e, "C16", "a code length that cannot be represented is accepted (wrapped or truncated)")
         ELSE F(y.ok => y.digits = D!SmallMag(x.digitsText), e, "C16", "the code length returned is not the number written in the URL"))
     \o (IF ~x.hasPeriod \/ x.periodText = <<>> THEN <<>>
         ELSE IF ~D!AtoiText(x.periodText) THEN F(~y.ok, e, "C16", "non-numeric period text accepted")
         ELSE IF D!AtoiNeg(x.periodText) THEN F(~y.ok, e, "C16", "a negative period is accepted (wrapped)")
         ELSE IF ~D!ParseUint64OK(D!AtoiMag(x.periodText)) THEN F(~y.ok, e, "C16", "a period beyond 64 bits is accepted")
         ELSE F(y.ok => y.period = D!ParseUint64(D!AtoiMag(x.periodText)), e, "C16", "the period returned is not the number written in the URL"))
    ELSE <<>>

(* ---- C12: frame conditions carried by any event ---- *)
HasField(rec, f) == f \in DOMAIN rec
FrameFails(e) ==
    (IF HasField(e.y, "frame")
     THEN F(e.y.frame.pre = e.y.frame.post, e, "C12", "memory reachable from an argument (incl. spare capacity) changed during the call") ELSE <<>>)
 \o (IF HasField(e.y, "glob")
     THEN F(e.y.glob.pre = e.y.glob.post, e, "C12", "exported defaults or the suite registry changed during the call") ELSE <<>>)
 \o (IF HasField(e.y, "retained")
     THEN F(e.y.retained.before = e.y.retained.after, e, "C12", "a returned value changed after its arguments were overwritten / later calls were made") ELSE <<>>)
 \o (IF HasField(e.y, "retained11")
     THEN F(e.y.retained11.before = e.y.retained11.after, e, "C11", "a returned code string changed after it had been returned (concurrent calls, scribbled pool buffers, collections)") ELSE <<>>)

=============================================================================
