-------------------------------- MODULE Wasm --------------------------------
(* Design-level model of the JavaScript-facing layer of the wasm binding      *)
(* (C20): every call, whatever the count and JS types of its arguments, is    *)
(* answered either by the library (on the common domain) or by an "error:"    *)
(* string, and leaves the module usable; the package's export table maps each *)
(* name to the global of the same name.  Argument vectors: any arity 0..9,    *)
(* at most one position deviating from the function's shape (the generator of *)
(* the real-code scenarios enumerates the same space).                        *)
EXTENDS Integers, Sequences, FiniteSets

Fns == {"generateHOTP", "generateTOTP", "validateHOTP", "validateTOTP", "generateOTPURL"}
Shape(fn) == CASE fn = "generateHOTP" -> <<"s", "n", "s", "s">>
               [] fn = "generateTOTP" -> <<"s", "n", "s", "s", "n">>
               [] fn = "validateHOTP" -> <<"s", "s", "n", "s", "s", "n">>
               [] fn = "validateTOTP" -> <<"s", "s", "n", "s", "s", "n", "n">>
               [] fn = "generateOTPURL" -> <<"s", "s", "s", "s", "s", "s">>
JSTypes == {"string", "empty", "number", "fraction", "negative", "nan", "huge", "undefined", "null", "boolean", "object"}
Fits(kind, t) == IF kind = "s" THEN t = "string" ELSE t \in {"number", "fraction"}     \* fractions are truncated, not rejected

CONSTANT Export          \* the package's export table: name -> global name
ExportOK == [n \in Fns |-> n]
ExportCrossed == [ExportOK EXCEPT !["validateTOTP"] = "validateHOTP"]      \* the pinned otp-js/src/index.js
VARIABLES usable, last, calls
vars == <<usable, last, calls>>

Good(fn) == [i \in 1..Len(Shape(fn)) |-> IF Shape(fn)[i] = "s" THEN "string" ELSE "number"]
ArgVectors(fn) ==
    { Good(fn) }
    \cup { [Good(fn) EXCEPT ![i] = t] : i \in 1..Len(Shape(fn)), t \in JSTypes }
    \cup { SubSeq(Good(fn), 1, n) : n \in 0..(Len(Shape(fn)) - 1) }
    \cup { Good(fn) \o <<"string">>, Good(fn) \o <<"number", "object">> }

Marshals(fn, args) == Len(args) = Len(Shape(fn)) /\ \A i \in 1..Len(args) : Fits(Shape(fn)[i], args[i])
Answer(fn, args) == IF Marshals(fn, args) THEN [kind |-> "library", fn |-> fn] ELSE [kind |-> "error", fn |-> fn]

Init == usable = TRUE /\ last = [kind |-> "none", fn |-> "none"] /\ calls = 0
Call(via, name, args) ==
    /\ usable /\ calls < 2
    /\ LET fn == IF via = "package" THEN Export[name] ELSE name IN last' = [Answer(fn, args) EXCEPT !.fn = name]
    /\ calls' = calls + 1
    /\ UNCHANGED usable
Next == \E via \in {"global", "package"}, name \in Fns : \E args \in ArgVectors(name) : Call(via, name, args)
Spec == Init /\ [][Next]_vars

MarshalTotal == last.kind \in {"none", "library", "error"}
StillUsable == usable
(* a call through the package is answered exactly as the call of the same name on globalThis: with the crossed  *)
(* table a well-formed validateTOTP call (7 arguments) is answered by validateHOTP's arity error                *)
ExportIdentity == \A name \in Fns : Export[name] = name
Inv == MarshalTotal /\ StillUsable /\ ExportIdentity
=============================================================================
