------------------------------- MODULE LibGen -------------------------------
(* Sequential histories of library calls (C11 "all sequential histories of    *)
(* mixed calls", C12 "all call histories", C08 "all call histories").         *)
(*                                                                           *)
(* The library's specified state is tiny: the position in the random stream  *)
(* and nothing else -- defaults, registry and pools are, by C11/C12, not      *)
(* observable.  The interesting part is therefore the HISTORY: which kinds of *)
(* calls precede which.  This module enumerates histories over abstract call  *)
(* classes chosen from the implementation's case analysis (counter ranges     *)
(* that exercise different halves of the pooled counter buffer, digit counts  *)
(* on both formatting paths, OCRA messages shorter / longer than the pooled   *)
(* buffer, registered / parsed / malformed suite strings, secrets, random     *)
(* secrets); `tlc -simulate` prints them, the harness makes each class        *)
(* concrete with seeded values, executes the history on the real code in one  *)
(* process and every call once more alone in a fresh process, and LibTrace    *)
(* demands equal observations (ConcFails) and conformance of every event.    *)
EXTENDS Integers, Sequences, TLC, Json

CONSTANT Depth

CtrClass == {"zero", "small", "below32", "above32", "above63", "max"}
DigitClass == {1, 6, 8, 9, 10, 0, 11}         \* incl. unsupported lengths: a refused call must leave nothing behind
Calls ==
    [op : {"GenerateHOTP", "ValidateHOTP"}, ctr : CtrClass, digits : DigitClass, alg : 0..3, nilp : BOOLEAN]
    \cup [op : {"GenerateTOTP", "ValidateTOTP"}, ctr : {"small", "above32"}, digits : DigitClass, alg : 0..3, nilp : BOOLEAN]
    \cup [op : {"GenerateOCRA", "ValidateOCRA"}, msg : {"short", "long", "registered", "inadmissible", "badsuite"}, digits : {4, 6, 10}, alg : 0..2]
    \cup [op : {"ParseDecimalChallenge"}, text : {"short", "long", "negative", "garbage"}]
    \cup [op : {"HexInputToOCRA"}, text : {"valid", "invalid"}]
    \cup [op : {"NewRawSuite"}, name : {"registered", "parsed", "malformed"}]
    \cup [op : {"DecodeSecret"}, spelling : {"canonical", "lower", "unpadded", "bad"}]
    \cup [op : {"RandomSecret"}, alg : 0..3]

VARIABLES hist, rngPos
Size(alg) == CASE alg = 0 -> 20 [] alg = 1 -> 32 [] alg = 2 -> 64 [] OTHER -> 0

Init == hist = <<>> /\ rngPos = 0
Do(c) == /\ Len(hist) < Depth
         /\ hist' = Append(hist, c)
         /\ rngPos' = IF c.op = "RandomSecret" THEN rngPos + Size(c.alg) ELSE rngPos     \* the only specified state change
Next == \E c \in Calls : Do(c)
Spec == Init /\ [][Next]_<<hist, rngPos>>

Dump == Len(hist) < Depth \/ PrintT(<<"HIST", ToJson(hist), rngPos>>)
=============================================================================
