------------------------------- MODULE Taint -------------------------------
(* Information-flow transition system of the program (property C09).         *)
(*                                                                           *)
(* The graph is extracted from the current tree (harness/ssagraph, SSA form   *)
(* of package otp native, package otp + wasm binding under GOOS=js, and the  *)
(* REST layer):                                                              *)
(*   G.n           number of nodes (SSA values, return nodes)                *)
(*   G.succ[i]     data-flow successors of node i (call/return, closures by  *)
(*                 class-hierarchy analysis, loads/stores, slices sharing    *)
(*                 memory; len/cap and constant-time comparisons cut flows)  *)
(*   G.srch        results of hash.Hash.Sum          -- HMAC-derived data    *)
(*   G.srcc        submitted text: string / []byte parameters of exported    *)
(*                 functions, request bodies, js string arguments            *)
(*   G.compares    variable-time comparison sites [a, b]: == != < <= > >=    *)
(*                 on non-constant operands, bytes/strings/slices.Equal...,  *)
(*                 map lookups keyed by a value                              *)
(*   G.sanitizers  constant-time comparison call sites [a, b]                *)
(* Taint is propagated one breadth-first layer per step; NoLeak must hold in *)
(* every state, hence at the fixpoint.                                       *)
EXTENDS Integers, Sequences, FiniteSets, TLC, Json, IOUtils

G == JsonDeserialize(IOEnv.VERIF_GRAPH)

Nodes == 1..G.n
ToSet(s) == { s[i] : i \in DOMAIN s }
SrcH == ToSet(G.srch)
SrcC == ToSet(G.srcc)

VARIABLES taintH, taintC, frontH, frontC
vars == <<taintH, taintC, frontH, frontC>>

Succs(S) == UNION { ToSet(G.succ[n]) : n \in S }

Init == /\ taintH = SrcH /\ frontH = SrcH
        /\ taintC = SrcC /\ frontC = SrcC

Propagate == /\ frontH # {} \/ frontC # {}
             /\ LET nh == Succs(frontH) \ taintH
                    nc == Succs(frontC) \ taintC
                IN  /\ taintH' = taintH \cup nh /\ frontH' = nh
                    /\ taintC' = taintC \cup nc /\ frontC' = nc

Spec == Init /\ [][Propagate]_vars

Fixpoint == frontH = {} /\ frontC = {}

(* a variable-time comparison between HMAC-derived data and submitted text:  *)
(* two DIFFERENT operands, one carrying each taint                           *)
Leaks(c) == /\ c.a # 0 /\ c.b # 0 /\ c.a # c.b
            /\ \/ c.a \in taintH /\ c.b \in taintC
               \/ c.a \in taintC /\ c.b \in taintH
LeakSet == { i \in DOMAIN G.compares : Leaks(G.compares[i]) }
NoLeak == LeakSet = {}

(* non-vacuity: at the fixpoint every constant-time comparison really sits   *)
(* between HMAC-derived data and submitted text (otherwise the extraction    *)
(* lost the flow and NoLeak says nothing)                                    *)
Reached(s) == \/ s.a \in taintH /\ s.b \in taintC
              \/ s.a \in taintC /\ s.b \in taintH
              \/ s.a \in taintH \cap taintC \/ s.b \in taintH \cap taintC     \* an accumulated difference finalised in constant time
Unreached == { i \in DOMAIN G.sanitizers : ~Reached(G.sanitizers[i]) }
ReachedSet == { i \in DOMAIN G.sanitizers : Reached(G.sanitizers[i]) }
(* sites that see HMAC-derived data on one operand but no submitted text on the other: the extraction may have lost a flow *)
HalfReached == { i \in Unreached : G.sanitizers[i].a \in taintH \/ G.sanitizers[i].b \in taintH }

Report == Fixpoint =>
    ndJsonSerialize(IOEnv.VERIF_REPORT,
        << [leaks |-> LeakSet, unreached |-> Unreached, reached |-> ReachedSet, half |-> HalfReached, nh |-> Cardinality(taintH), nc |-> Cardinality(taintC),
            both |-> Cardinality(taintH \cap taintC), nsan |-> Len(G.sanitizers), ncmp |-> Len(G.compares), nsrch |-> Cardinality(SrcH)] >>)
=============================================================================
