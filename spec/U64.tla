-------------------------------- MODULE U64 --------------------------------
(* Fixed-width unsigned integers as big-endian sequences of limbs.           *)
(* TLC integers are 32 bit, so every quantity of the implementation that can *)
(* exceed 2^31-1 (counters, Unix seconds, periods, skews) is a word.         *)
(*   real scale  : Base = 256, NB = 8  (a word IS the 8-byte big-endian      *)
(*                 encoding that RFC 4226 feeds to HMAC)                     *)
(*   small scope : Base = 2,   NB = 3  (8 values, "sign bit" = values >= 4)  *)
(* All operators work on any two limb sequences of equal length, so the      *)
(* double-width products of Mul can be compared with the same operators.     *)
EXTENDS Integers, Sequences, TLC

(* TLCEval only makes TLC build a result tuple once instead of keeping a lazily *)
(* evaluated function that is recomputed at every application or comparison.   *)

CONSTANTS Base, NB
ASSUME Base \in 2..256 /\ NB \in 1..8

Limb == 0..(Base - 1)
IsWord(x) == Len(x) = NB /\ \A i \in 1..NB : x[i] \in Limb
Word == [1..NB -> Limb]          \* enumerable only at small scope

Zero == [i \in 1..NB |-> 0]
One  == [i \in 1..NB |-> IF i = NB THEN 1 ELSE 0]
MaxWord == [i \in 1..NB |-> Base - 1]

Eq(x, y) == x = y

(* lexicographic order = numeric order for big-endian equal-length words     *)
Less(x, y) == \E i \in 1..Len(x) : x[i] < y[i] /\ \A j \in 1..(i - 1) : x[j] = y[j]
Leq(x, y) == x = y \/ Less(x, y)

RECURSIVE CarryIn(_, _, _)
CarryIn(x, y, i) == IF i = Len(x) THEN 0
                    ELSE (x[i + 1] + y[i + 1] + CarryIn(x, y, i + 1)) \div Base
(* addition modulo Base^Len (Go: uint64 wrap-around)                         *)
Add(x, y) == TLCEval([i \in 1..Len(x) |-> (x[i] + y[i] + CarryIn(x, y, i)) % Base])
AddOverflows(x, y) == (x[1] + y[1] + CarryIn(x, y, 1)) >= Base

RECURSIVE BorrowIn(_, _, _)
BorrowIn(x, y, i) == IF i = Len(x) THEN 0
                     ELSE IF x[i + 1] - y[i + 1] - BorrowIn(x, y, i + 1) < 0 THEN 1 ELSE 0
(* subtraction modulo Base^Len (Go: uint64 wrap-around)                      *)
Sub(x, y) == TLCEval([i \in 1..Len(x) |-> (x[i] - y[i] - BorrowIn(x, y, i) + Base) % Base])

RECURSIVE ShiftDiv(_, _)
ShiftDiv(n, k) == IF k = 0 THEN n ELSE ShiftDiv(n \div Base, k - 1)
(* word of a natural number 0 <= n < 2^31 (truncated to NB limbs)            *)
FromNat(n) == TLCEval([i \in 1..NB |-> ShiftDiv(n, NB - i) % Base])

RECURSIVE Horner(_, _)
Horner(x, i) == IF i = 0 THEN 0 ELSE Horner(x, i - 1) * Base + x[i]
(* natural number of a word; only call when IsSmall(x)                       *)
ToNat(x) == Horner(x, Len(x))
(* value < Base^3  (< 2^24 at real scale): safe for TLC's 32-bit integers    *)
IsSmall(x) == \A i \in 1..(Len(x) - 3) : x[i] = 0

(* the "int64(x) is negative" view of the implementation: top bit set        *)
TopBitSet(x) == x[1] >= Base \div 2

(* schoolbook multiplication, result has 2*Len limbs                         *)
Lsl(x, i) == x[Len(x) - i]                       \* i-th limb from the least significant end, 0-based
RECURSIVE ColSum(_, _, _, _)
ColSum(x, y, k, i) == IF i > Len(x) - 1 THEN 0
                      ELSE (IF (k - i) \in 0..(Len(x) - 1) THEN Lsl(x, i) * Lsl(y, k - i) ELSE 0)
                           + ColSum(x, y, k, i + 1)
RECURSIVE MCarry(_, _, _)
MCarry(x, y, k) == IF k = 0 THEN 0 ELSE (ColSum(x, y, k - 1, 0) + MCarry(x, y, k - 1)) \div Base
Mul(x, y) == TLCEval([p \in 1..(2 * Len(x)) |->
                 LET k == 2 * Len(x) - p IN (ColSum(x, y, k, 0) + MCarry(x, y, k)) % Base])

Ext(x) == TLCEval([i \in 1..Len(x) |-> 0] \o x)             \* zero-extend to double width

(* q = floor(t / p), stated without division:  q*p <= t < q*p + p            *)
FloorDivIs(q, t, p) ==
    /\ p # [i \in 1..Len(p) |-> 0]
    /\ LET qp == Mul(q, p) IN
         /\ Leq(qp, Ext(t))
         /\ Less(Ext(t), Add(qp, Ext(p)))          \* double width cannot overflow

(* the declarative window  { c' : max(0, c-s) <= c' <= c+s }  for c+s without overflow *)
Window(c, s) == { Add(c, FromNat(i)) : i \in 0..s } \cup
                { Sub(c, FromNat(i)) : i \in { j \in 1..s : Leq(FromNat(j), c) } }
=============================================================================
