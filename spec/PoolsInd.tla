------------------------------ MODULE PoolsInd ------------------------------
(* Typed (Apalache) variant of Pools with Deviation = {} and the history     *)
(* variable `returned` projected away, used to discharge an INDUCTIVE        *)
(* invariant: Exclusive, ReadsOwnData and ResultCorrect hold after any       *)
(* number of calls per caller (Pools_MC bounds MaxCalls; here `calls` is an  *)
(* arbitrary natural number and MaxCalls does not exist).                    *)
(*                                                                           *)
(* The actions are Pools's actions, one for one, with                        *)
(*   - data tags <<c, n>>, Zero, Junk, NoData all typed <<Str, Int>>,        *)
(*   - F(d) = d (an injective uninterpreted function is the strongest case), *)
(*   - ResultCorrect stated where Pools adds to `returned`: at "summed" the  *)
(*     value about to be returned is F(want[c]); a returned value is a value *)
(*     (view = None without ResultAliasesBuffer), so ResultStable is vacuous.*)
(* Checked with                                                              *)
(*   apalache-mc check --cinit=ConstInit --init=Init    --inv=IndInv --length=0 *)
(*   apalache-mc check --cinit=ConstInit --init=IndInit --inv=IndInv --length=1 *)
(*   apalache-mc check --cinit=ConstInit --init=IndInit --inv=Safety --length=0 *)
EXTENDS Integers, FiniteSets, Apalache

CONSTANTS
    \* @type: Set(Str);
    Caller,
    \* @type: Set(Int);
    Buf

None == 0
\* @type: <<Str, Int>>;
Junk == <<"junk", 0>>
\* @type: <<Str, Int>>;
Zero == <<"zero", 0>>
\* @type: <<Str, Int>>;
NoData == <<"nodata", 0>>
Kind == {"short", "long"}
PC == {"idle", "got", "filled", "newed", "written", "summed"}

VARIABLES
    \* @type: Set(Int);
    free,
    \* @type: Int -> <<Str, Int>>;
    content,
    \* @type: Set(Int);
    adv,
    \* @type: Str -> Str;
    pc,
    \* @type: Str -> Str;
    kind,
    \* @type: Str -> Int;
    held,
    \* @type: Str -> Bool;
    priv,
    \* @type: Str -> <<Str, Int>>;
    want,
    \* @type: Str -> <<Str, Int>>;
    seen,
    \* @type: Str -> <<Str, Int>>;
    res,
    \* @type: Str -> Int;
    calls

ConstInit == /\ Caller = {"c1", "c2", "c3", "c4"}
             /\ Buf = 1..5

InUse == { held[c] : c \in Caller } \ {None}
Unallocated == Buf \ (free \cup adv \cup InUse)

Init == /\ free = {} /\ adv = {}
        /\ content = [b \in Buf |-> Zero]
        /\ pc = [c \in Caller |-> "idle"]
        /\ kind = [c \in Caller |-> "short"]
        /\ held = [c \in Caller |-> None]
        /\ priv = [c \in Caller |-> FALSE]
        /\ want = [c \in Caller |-> NoData]
        /\ seen = [c \in Caller |-> NoData]
        /\ res = [c \in Caller |-> NoData]
        /\ calls = [c \in Caller |-> 0]

Get(c) ==
    /\ pc[c] = "idle"
    /\ \E k \in Kind :
       \E b \in free \cup Unallocated :
          /\ held' = [held EXCEPT ![c] = b]
          /\ free' = free \ {b}
          /\ content' = IF b \in free THEN content ELSE [content EXCEPT ![b] = Zero]
          /\ kind' = [kind EXCEPT ![c] = k]
    /\ pc' = [pc EXCEPT ![c] = "got"]
    /\ calls' = [calls EXCEPT ![c] = @ + 1]
    /\ want' = [want EXCEPT ![c] = <<c, calls[c] + 1>>]
    /\ priv' = [priv EXCEPT ![c] = FALSE]
    /\ UNCHANGED <<adv, seen, res>>

Fill(c) ==
    /\ pc[c] = "got" /\ kind[c] = "short"
    /\ content' = [content EXCEPT ![held[c]] = want[c]]
    /\ pc' = [pc EXCEPT ![c] = "filled"]
    /\ UNCHANGED <<free, adv, kind, held, priv, want, seen, res, calls>>

FillGrow(c) ==
    /\ pc[c] = "got" /\ kind[c] = "long"
    /\ priv' = [priv EXCEPT ![c] = TRUE]
    /\ content' = [content EXCEPT ![held[c]] = Junk]
    /\ pc' = [pc EXCEPT ![c] = "filled"]
    /\ UNCHANGED <<free, adv, kind, held, want, seen, res, calls>>

MacNew(c) ==
    /\ pc[c] = "filled"
    /\ pc' = [pc EXCEPT ![c] = "newed"]
    /\ UNCHANGED <<free, content, adv, kind, held, priv, want, seen, res, calls>>

MacWrite(c) ==
    /\ pc[c] = "newed"
    /\ seen' = [seen EXCEPT ![c] = IF priv[c] THEN want[c] ELSE content[held[c]]]
    /\ pc' = [pc EXCEPT ![c] = "written"]
    /\ UNCHANGED <<free, content, adv, kind, held, priv, want, res, calls>>

MacSum(c) ==
    /\ pc[c] = "written"
    /\ res' = [res EXCEPT ![c] = seen[c]]
    /\ pc' = [pc EXCEPT ![c] = "summed"]
    /\ UNCHANGED <<free, content, adv, kind, held, priv, want, seen, calls>>

ReleaseAfterUse(c) ==
    /\ pc[c] \in {"written", "summed"} /\ held[c] # None
    /\ \/ free' = free \cup {held[c]}
       \/ free' = free
    /\ held' = [held EXCEPT ![c] = None]
    /\ UNCHANGED <<content, adv, pc, kind, priv, want, seen, res, calls>>

ReturnPut(c) ==
    /\ pc[c] = "summed"
    /\ free' = IF held[c] = None THEN free ELSE free \cup {held[c]}
    /\ held' = [held EXCEPT ![c] = None]
    /\ pc' = [pc EXCEPT ![c] = "idle"]
    /\ UNCHANGED <<content, adv, kind, priv, want, seen, res, calls>>

GC == /\ free # {}
      /\ free' = {}
      /\ UNCHANGED <<content, adv, pc, kind, held, priv, want, seen, res, calls>>

AdvGet == \E b \in free :
            /\ free' = free \ {b} /\ adv' = adv \cup {b}
            /\ UNCHANGED <<content, pc, kind, held, priv, want, seen, res, calls>>
AdvScribble == \E b \in adv :
            /\ content' = [content EXCEPT ![b] = Junk]
            /\ UNCHANGED <<free, adv, pc, kind, held, priv, want, seen, res, calls>>
AdvPut == \E b \in adv :
            /\ adv' = adv \ {b} /\ free' = free \cup {b}
            /\ UNCHANGED <<content, pc, kind, held, priv, want, seen, res, calls>>

Next == \/ \E c \in Caller : Get(c) \/ Fill(c) \/ FillGrow(c) \/ MacNew(c) \/ MacWrite(c) \/ MacSum(c)
                             \/ ReturnPut(c) \/ ReleaseAfterUse(c)
        \/ GC \/ AdvGet \/ AdvScribble \/ AdvPut

(* Negative control (Pools's named deviation EarlyPut): the buffer goes back to the pool before HMAC has read it. *)
(* The induction step over NextEarlyPut must FAIL; it is run on every check so that the proof is not vacuous.     *)
EarlyPut(c) ==
    /\ pc[c] = "filled" /\ held[c] \notin free
    /\ free' = free \cup {held[c]}
    /\ UNCHANGED <<content, adv, pc, kind, held, priv, want, seen, res, calls>>
NextEarlyPut == Next \/ \E c \in Caller : EarlyPut(c)

(* ---- the properties of Pools ---- *)
Exclusive == \A c \in Caller : held[c] # None =>
                /\ held[c] \notin free
                /\ held[c] \notin adv
                /\ \A d \in Caller \ {c} : held[d] # held[c]
ReadsOwnData == \A c \in Caller : pc[c] \in {"written", "summed"} => seen[c] = want[c]
ResultCorrect == \A c \in Caller : pc[c] = "summed" => res[c] = want[c]
Safety == Exclusive /\ ReadsOwnData /\ ResultCorrect

(* ---- the inductive invariant ---- *)
TypeOK == /\ free \in SUBSET Buf /\ adv \in SUBSET Buf
          /\ pc \in [Caller -> PC] /\ kind \in [Caller -> Kind]
          /\ held \in [Caller -> Buf \cup {None}]
          /\ priv \in [Caller -> BOOLEAN]
          /\ calls \in [Caller -> Nat]

(* a call owns its buffer from Get until HMAC has read it *)
OwnsUntilRead == \A c \in Caller :
                   /\ pc[c] \in {"got", "filled", "newed"} => held[c] # None
                   /\ pc[c] = "idle" => held[c] = None
(* what Fill wrote is still there when HMAC reads it *)
FilledIsOwn == \A c \in Caller :
                   (pc[c] \in {"filled", "newed"} /\ ~priv[c]) => content[held[c]] = want[c]

(* a buffer is in the pool or in the adversary's hands, never both *)
PoolOrAdv == free \cap adv = {}

IndInv == TypeOK /\ Exclusive /\ ReadsOwnData /\ ResultCorrect /\ OwnsUntilRead /\ FilledIsOwn /\ PoolOrAdv

(* data tags range over an infinite set (any caller, any call number): Gen leaves them unconstrained *)
IndInit == /\ free \in SUBSET Buf /\ adv \in SUBSET Buf
           /\ content = Gen(5) /\ DOMAIN content = Buf
           /\ pc \in [Caller -> PC] /\ kind \in [Caller -> Kind]
           /\ held \in [Caller -> Buf \cup {None}]
           /\ priv \in [Caller -> BOOLEAN]
           /\ want = Gen(4) /\ DOMAIN want = Caller
           /\ seen = Gen(4) /\ DOMAIN seen = Caller
           /\ res = Gen(4) /\ DOMAIN res = Caller
           /\ calls \in [Caller -> Nat]
           /\ IndInv
=============================================================================
