SPECIFICATION Spec
CONSTANT Export <- ExportCrossed
INVARIANT Inv
CHECK_DEADLOCK FALSE
