----------------------------- MODULE StepLemma -----------------------------
(* Unbounded lemmas behind C02 and C04 (TLAPS, SMT back end).                 *)
(*  StepUnique : the relation by which the specification recognises           *)
(*               floor(t/p) -- q*p <= t < q*p + p -- has at most one solution *)
(*               for every instant and every positive period, so "the step"   *)
(*               is well defined without ever dividing.                       *)
(*  StepConstant / StepChanges : inside [q*p, q*p+p) every instant has step   *)
(*               q; the instant q*p+p has step q+1 (codes change exactly at   *)
(*               step boundaries).                                            *)
(*  WorkBound  : a window of skew s <= 10 holds at most 21 counters.          *)
EXTENDS Integers, TLAPS

IsStep(q, t, p) == q * p <= t /\ t < q * p + p

LEMMA MulMono == \A a \in Nat, b \in Nat, p \in Nat : a + 1 <= b /\ p > 0 => a * p + p <= b * p
<1> SUFFICES ASSUME NEW a \in Nat, NEW b \in Nat, NEW p \in Nat, a + 1 <= b, p > 0 PROVE a * p + p <= b * p
  OBVIOUS
<1>1. b = (a + 1) + (b - (a + 1)) /\ (b - (a + 1)) \in Nat
  OBVIOUS
<1>2. b * p = (a + 1) * p + (b - (a + 1)) * p
  BY <1>1
<1>3. (b - (a + 1)) * p >= 0
  BY <1>1
<1>4. (a + 1) * p = a * p + p
  OBVIOUS
<1> QED BY <1>2, <1>3, <1>4

THEOREM StepUnique == \A t \in Nat, p \in Nat, q1 \in Nat, q2 \in Nat :
                         p > 0 /\ IsStep(q1, t, p) /\ IsStep(q2, t, p) => q1 = q2
<1> SUFFICES ASSUME NEW t \in Nat, NEW p \in Nat, NEW q1 \in Nat, NEW q2 \in Nat, p > 0, IsStep(q1, t, p), IsStep(q2, t, p)
             PROVE q1 = q2
  OBVIOUS
<1>1. ~(q1 + 1 <= q2)
  <2> SUFFICES ASSUME q1 + 1 <= q2 PROVE FALSE
    OBVIOUS
  <2>1. q1 * p + p <= q2 * p
    BY MulMono
  <2> QED BY <2>1 DEF IsStep
<1>2. ~(q2 + 1 <= q1)
  <2> SUFFICES ASSUME q2 + 1 <= q1 PROVE FALSE
    OBVIOUS
  <2>1. q2 * p + p <= q1 * p
    BY MulMono
  <2> QED BY <2>1 DEF IsStep
<1> QED BY <1>1, <1>2

THEOREM StepConstant == \A p \in Nat, q \in Nat, t \in Nat : p > 0 /\ q * p <= t /\ t < q * p + p => IsStep(q, t, p)
  BY DEF IsStep

THEOREM StepChanges == \A p \in Nat, q \in Nat : p > 0 => IsStep(q + 1, q * p + p, p) /\ ~IsStep(q, q * p + p, p)
<1> SUFFICES ASSUME NEW p \in Nat, NEW q \in Nat, p > 0 PROVE IsStep(q + 1, q * p + p, p) /\ ~IsStep(q, q * p + p, p)
  OBVIOUS
<1>1. (q + 1) * p = q * p + p
  OBVIOUS
<1> QED BY <1>1 DEF IsStep

Max(a, b) == IF a >= b THEN a ELSE b
Declared(c, s) == Max(0, c - s)..(c + s)
THEOREM WorkBound == \A c \in Nat, s \in 0..10 : \A x \in Declared(c, s) : x \in (c - 10)..(c + 10)
  BY DEF Declared, Max
=============================================================================
