-------------------------------- MODULE Lib --------------------------------
(* Functional specification of package otp (github.com/ja7ad/otp): for every *)
(* exported operation the reply the properties demand, as a function of the  *)
(* arguments and of HMAC.                                                    *)
(*                                                                           *)
(* HMAC is uninterpreted: every operator that needs it takes an operator     *)
(* argument  Hm(alg, key, msg)  returning the digest (a byte string) or      *)
(* NoDigest.  Trace validation instantiates it with a lookup table filled by *)
(* crypto/hmac and keyed by the values computed HERE; small-scope model      *)
(* checking instantiates it with an arbitrary function.                      *)
(*                                                                           *)
(* An expectation is a record  [class, ...]:                                 *)
(*   "value"  the call must return exactly  .val                             *)
(*   "error"  the call must return an error (any text)                       *)
(*   "errorNV" the call must return an error and an empty result             *)
(*   "accept" a validation must return (true, no error)                      *)
(*   "refuse" a validation must return (false, an error)                     *)
(*   "any"    the property leaves the outcome open (but never a panic/hang)  *)
(*   "miss"   the HMAC table lacks an entry: the event is inconclusive       *)
EXTENDS Bytes

W   == INSTANCE U64 WITH Base <- 256, NB <- 8
B32 == INSTANCE RFC4648
R4  == INSTANCE RFC4226

NoDigest == <<>>

Value(v)  == [class |-> "value", val |-> v]
ErrorX    == [class |-> "error"]            \* an error; what accompanies it is not constrained
ErrorNV   == [class |-> "errorNV"]          \* an error and NO value ("never with a code")
AcceptX   == [class |-> "accept"]
RefuseX   == [class |-> "refuse"]
AnyX      == [class |-> "any"]
MissX     == [class |-> "miss"]

Ten == W!FromNat(10)

(* ---------------- parameter resolution (C02, C03, C04) ------------------- *)
(* p = [nil, digits, alg, skew, period]; skew and period are words           *)
ResolveHOTP(p) == IF p.nil THEN [digits |-> 6, alg |-> 0, skew |-> W!FromNat(2)]
                  ELSE [digits |-> p.digits, alg |-> p.alg, skew |-> p.skew]
DefaultPeriod == W!FromNat(30)
ResolveTOTP(p) == IF p.nil THEN [digits |-> 6, alg |-> 0, skew |-> W!Zero, period |-> DefaultPeriod]
                  ELSE [digits |-> p.digits, alg |-> p.alg, skew |-> p.skew,
                        period |-> IF p.period = W!Zero THEN DefaultPeriod ELSE p.period]

Supported(alg, digits) == R4!HashOK(alg) /\ R4!DigitsOK(digits)

(* ---------------- DecodeSecret (C07) ------------------------------------- *)
DecodeExpect(text) ==
    CASE B32!Region(text) = "accept" -> Value(B32!KeyOf(text))
      [] B32!Region(text) = "reject" -> ErrorX
      [] OTHER -> AnyX

(* ---------------- HOTP generation (C01) ---------------------------------- *)
HOTPAt(Hm(_, _, _), alg, key, ctr, digits) ==
    LET sum == Hm(alg, key, ctr) IN IF sum = NoDigest THEN NoDigest ELSE R4!HOTP(sum, digits)

GenAtCounter(Hm(_, _, _), secret, ctr, alg, digits) ==
    LET reg == B32!Region(secret) IN
    IF reg = "reject" THEN ErrorNV
    ELSE IF ~Supported(alg, digits) THEN (IF reg = "accept" THEN ErrorNV ELSE AnyX)
    ELSE IF reg # "accept" THEN AnyX
    ELSE LET code == HOTPAt(Hm, alg, B32!KeyOf(secret), ctr, digits) IN
         IF code = NoDigest THEN MissX ELSE Value(code)

GenHOTPExpect(Hm(_, _, _), secret, ctr, p) ==
    LET rp == ResolveHOTP(p) IN GenAtCounter(Hm, secret, ctr, rp.alg, rp.digits)

(* ---------------- TOTP generation (C02) ---------------------------------- *)
(* sec = Unix seconds of the instant as a word (domain: 0 <= sec < 2^62);    *)
(* step = the harness' claim for floor(sec/period), CHECKED here             *)
InTimeDomain(sec) == sec[1] < 64
StepIs(step, sec, period) == W!FloorDivIs(step, sec, period)

GenTOTPExpect(Hm(_, _, _), secret, sec, step, p) ==
    LET rp == ResolveTOTP(p) IN
    IF ~InTimeDomain(sec) THEN AnyX
    ELSE IF ~StepIs(step, sec, rp.period) THEN [class |-> "badhint"]
    ELSE GenAtCounter(Hm, secret, step, rp.alg, rp.digits)

(* ---------------- validation windows (C03, C04) -------------------------- *)
(* the set of codes of the counters in a window; NoDigest in it = table miss *)
WindowCodes(Hm(_, _, _), alg, key, digits, ctrs) == { HOTPAt(Hm, alg, key, c, digits) : c \in ctrs }

ValidateAt(Hm(_, _, _), secret, code, ctr, alg, digits, skew, inDomain) ==
    IF W!Less(Ten, skew) THEN RefuseX                           \* a window larger than 10 is refused
    ELSE LET reg == B32!Region(secret) IN
    IF reg = "reject" THEN RefuseX
    ELSE IF ~Supported(alg, digits) THEN (IF reg = "accept" THEN RefuseX ELSE AnyX)
    ELSE IF reg # "accept" \/ ~inDomain THEN AnyX
    ELSE LET s     == W!ToNat(skew)
             codes == WindowCodes(Hm, alg, B32!KeyOf(secret), digits, W!Window(ctr, s))
         IN  IF NoDigest \in codes THEN MissX
             ELSE IF code \in codes THEN AcceptX ELSE RefuseX

(* HOTP: domain c + s <= 2^64-1                                              *)
ValHOTPExpect(Hm(_, _, _), secret, code, ctr, p) ==
    LET rp == ResolveHOTP(p) IN
    ValidateAt(Hm, secret, code, ctr, rp.alg, rp.digits, rp.skew,
               W!Less(Ten, rp.skew) \/ ~W!AddOverflows(ctr, rp.skew))

(* TOTP: domain floor(t/p) >= s, t < 2^62                                    *)
ValTOTPExpect(Hm(_, _, _), secret, code, sec, step, p) ==
    LET rp == ResolveTOTP(p) IN
    IF W!Less(Ten, rp.skew) THEN RefuseX
    ELSE IF ~InTimeDomain(sec) THEN AnyX
    ELSE IF ~StepIs(step, sec, rp.period) THEN [class |-> "badhint"]
    ELSE ValidateAt(Hm, secret, code, step, rp.alg, rp.digits, rp.skew, W!Leq(rp.skew, step))

(* bounded work (C04, C19): HMAC evaluations per validation call             *)
MaxWork == 21

(* ---------------- conformance of a reply with an expectation ------------- *)
(* reply = [kind, ok, haserr, val, err]                                      *)
Returned(reply) == reply.kind \in {"value", "error"}      \* not panic / hang / abort  (C10)

Conforms(reply, x) ==
    /\ Returned(reply)
    /\ CASE x.class = "value"  -> reply.kind = "value" /\ reply.val = x.val
         [] x.class = "error"  -> reply.kind = "error"
         [] x.class = "errorNV" -> reply.kind = "error" /\ reply.val = <<>>
         [] x.class = "accept" -> reply.ok /\ ~reply.haserr
         [] x.class = "refuse" -> ~reply.ok /\ reply.haserr
         [] OTHER -> TRUE

(* C13: a validation verdict is (true, nil) or (false, err)                  *)
VerdictWellFormed(reply) == Returned(reply) /\ (reply.ok <=> ~reply.haserr)

(* C13: an error text discloses neither the secret nor an acceptable code    *)
Discloses(errText, secretText, key, codes) ==
    \/ Len(secretText) >= 16 /\ Contains(errText, Trim(secretText, B32!SureWS))
    \/ Len(key) >= 10 /\ (Contains(errText, key) \/ Contains(errText, HexEncodeLower(key))
                          \/ Contains(errText, HexEncodeUpper(key)))
    \/ \E c \in codes : Len(c) >= 6 /\ Contains(errText, c)
=============================================================================
