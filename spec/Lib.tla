-------------------------------- MODULE Lib --------------------------------
(* Functional specification of package otp (github.com/ja7ad/otp): for every *)
(* exported operation the reply the properties demand, as a function of the  *)
(* arguments and of HMAC.                                                    *)
(*                                                                           *)
(* HMAC is uninterpreted: every operator that needs it takes an operator     *)
(* argument  Hm(alg, key, msg)  returning the digest (a byte string) or      *)
(* NoDigest.  Trace validation instantiates it with a lookup table filled by *)
(* crypto/hmac and keyed by the values computed HERE; small-scope model      *)
(* checking instantiates it with an arbitrary function.                      *)
(*                                                                           *)
(* An expectation is a record  [class, ...]:                                 *)
(*   "value"  the call must return exactly  .val                             *)
(*   "error"  the call must return an error (any text)                       *)
(*   "errorNV" the call must return an error and an empty result             *)
(*   "accept" a validation must return (true, no error)                      *)
(*   "refuse" a validation must return (false, an error)                     *)
(*   "any"    the property leaves the outcome open (but never a panic/hang)  *)
(*   "miss"   the HMAC table lacks an entry: the event is inconclusive       *)
EXTENDS Bytes

W   == INSTANCE U64 WITH Base <- 256, NB <- 8
B32 == INSTANCE RFC4648
R4  == INSTANCE RFC4226
O   == INSTANCE RFC6287
D   == INSTANCE Dec

NoDigest == <<>>

Value(v)  == [class |-> "value", val |-> v]
ErrorX    == [class |-> "error"]            \* an error; what accompanies it is not constrained
ErrorNV   == [class |-> "errorNV"]          \* an error and NO value ("never with a code")
AcceptX   == [class |-> "accept"]
RefuseX   == [class |-> "refuse"]
AnyX      == [class |-> "any"]
MissX     == [class |-> "miss"]

Ten == W!FromNat(10)

(* ---------------- parameter resolution (C02, C03, C04) ------------------- *)
(* p = [nil, digits, alg, skew, period]; skew and period are words           *)
ResolveHOTP(p) == IF p.nil THEN [digits |-> 6, alg |-> 0, skew |-> W!FromNat(2)]
                  ELSE [digits |-> p.digits, alg |-> p.alg, skew |-> p.skew]
DefaultPeriod == W!FromNat(30)
ResolveTOTP(p) == IF p.nil THEN [digits |-> 6, alg |-> 0, skew |-> W!Zero, period |-> DefaultPeriod]
                  ELSE [digits |-> p.digits, alg |-> p.alg, skew |-> p.skew,
                        period |-> IF p.period = W!Zero THEN DefaultPeriod ELSE p.period]

Supported(alg, digits) == R4!HashOK(alg) /\ R4!DigitsOK(digits)

(* ---------------- DecodeSecret (C07) ------------------------------------- *)
DecodeExpect(text) ==
    CASE B32!Region(text) = "accept" -> Value(B32!KeyOf(text))
      [] B32!Region(text) = "reject" -> ErrorX
      [] OTHER -> AnyX

(* ---------------- HOTP generation (C01) ---------------------------------- *)
HOTPAt(Hm(_, _, _), alg, key, ctr, digits) ==
    LET sum == Hm(alg, key, ctr) IN IF sum = NoDigest THEN NoDigest ELSE R4!HOTP(sum, digits)

GenAtCounter(Hm(_, _, _), secret, ctr, alg, digits) ==
    LET reg == B32!Region(secret) IN
    IF reg = "reject" THEN ErrorNV
    ELSE IF ~Supported(alg, digits) THEN (IF reg = "accept" THEN ErrorNV ELSE AnyX)
    ELSE IF reg # "accept" THEN AnyX
    ELSE LET code == HOTPAt(Hm, alg, B32!KeyOf(secret), ctr, digits) IN
         IF code = NoDigest THEN MissX ELSE Value(code)

GenHOTPExpect(Hm(_, _, _), secret, ctr, p) ==
    LET rp == ResolveHOTP(p) IN GenAtCounter(Hm, secret, ctr, rp.alg, rp.digits)

(* ---------------- TOTP generation (C02) ---------------------------------- *)
(* sec = Unix seconds of the instant as a word (domain: 0 <= sec < 2^62);    *)
(* step = the harness' claim for floor(sec/period), CHECKED here             *)
InTimeDomain(sec) == sec[1] < 64
StepIs(step, sec, period) == W!FloorDivIs(step, sec, period)

GenTOTPExpect(Hm(_, _, _), secret, sec, step, p) ==
    LET rp == ResolveTOTP(p) IN
    IF B32!Region(secret) = "reject" THEN ErrorNV               \* whatever the instant
    ELSE IF ~InTimeDomain(sec) THEN AnyX
    ELSE IF ~StepIs(step, sec, rp.period) THEN [class |-> "badhint"]
    ELSE GenAtCounter(Hm, secret, step, rp.alg, rp.digits)

(* ---------------- validation windows (C03, C04) -------------------------- *)
(* the set of codes of the counters in a window; NoDigest in it = table miss *)
WindowCodes(Hm(_, _, _), alg, key, digits, ctrs) == { HOTPAt(Hm, alg, key, c, digits) : c \in ctrs }

ValidateAt(Hm(_, _, _), secret, code, ctr, alg, digits, skew, inDomain) ==
    IF W!Less(Ten, skew) THEN RefuseX                           \* a window larger than 10 is refused
    ELSE LET reg == B32!Region(secret) IN
    IF reg = "reject" THEN RefuseX
    ELSE IF ~Supported(alg, digits) THEN (IF reg = "accept" THEN RefuseX ELSE AnyX)
    ELSE IF reg # "accept" \/ ~inDomain THEN AnyX
    ELSE LET s     == W!ToNat(skew)
             codes == WindowCodes(Hm, alg, B32!KeyOf(secret), digits, W!Window(ctr, s))
         IN  IF NoDigest \in codes THEN MissX
             ELSE IF code \in codes THEN AcceptX ELSE RefuseX

(* HOTP: domain c + s <= 2^64-1                                              *)
ValHOTPExpect(Hm(_, _, _), secret, code, ctr, p) ==
    LET rp == ResolveHOTP(p) IN
    ValidateAt(Hm, secret, code, ctr, rp.alg, rp.digits, rp.skew,
               W!Less(Ten, rp.skew) \/ ~W!AddOverflows(ctr, rp.skew))

(* TOTP: domain floor(t/p) >= s, t < 2^62                                    *)
ValTOTPExpect(Hm(_, _, _), secret, code, sec, step, p) ==
    LET rp == ResolveTOTP(p) IN
    IF W!Less(Ten, rp.skew) \/ B32!Region(secret) = "reject" THEN RefuseX    \* whatever the instant
    ELSE IF ~InTimeDomain(sec) THEN AnyX
    ELSE IF ~StepIs(step, sec, rp.period) THEN [class |-> "badhint"]
    ELSE ValidateAt(Hm, secret, code, step, rp.alg, rp.digits, rp.skew, W!Leq(rp.skew, step))

(* ---------------- OCRA (C05, C06, C14) ------------------------------------ *)
(* suite argument  su = [kind, name, cfg]:                                    *)
(*   kind "raw": the Suite returned by NewRawSuite(name); cfg = what its      *)
(*               Config() reports (observed);                                 *)
(*   kind "cfg": a hand-built SuiteConfig (cfg.raw = its arbitrary Raw text). *)
(* For a raw suite the configuration is what the NAME says whenever the name  *)
(* follows the grammar (so a registry entry that contradicts its name yields  *)
(* a wrong code, C05, not only a wrong description, C15); the suite string in *)
(* the message is the name itself.                                            *)
EffCfg(su) ==
    IF su.kind = "raw"
    THEN LET rd == O!Reading(su.name) IN
         IF rd.class = "wellformed"
         THEN [rd.cfg EXCEPT !.ts = IF rd.tsKnown THEN @ ELSE su.cfg.ts]
         ELSE [su.cfg EXCEPT !.raw = su.name]
    ELSE su.cfg

GenOCRAExpect(Hm(_, _, _), secret, su, in) ==
    LET reg == B32!Region(secret)
        cfg == EffCfg(su)
    IN  IF reg = "reject" \/ (O!EnumsInDomain(cfg) /\ (~O!SuiteUsable(cfg) \/ ~O!Admissible(cfg, in))) THEN ErrorNV
        ELSE IF reg # "accept" \/ ~O!EnumsInDomain(cfg) THEN AnyX
        ELSE LET sum == Hm(cfg.hash, B32!KeyOf(secret), O!Msg(cfg, in)) IN
             IF sum = NoDigest THEN MissX ELSE Value(O!OCRA(sum, cfg.digits))

(* C06: validation accepts exactly what generation returns                    *)
ValOCRAExpect(Hm(_, _, _), secret, code, su, in) ==
    LET g == GenOCRAExpect(Hm, secret, su, in) IN
    CASE g.class = "value"   -> IF code = g.val THEN AcceptX ELSE RefuseX
      [] g.class = "errorNV" -> RefuseX
      [] OTHER -> g

NoErrorX == Value(<<>>)
(* OCRAInput.Validate(cfg), SuiteConfig.Validate(), NewSuite(cfg)  (C14)      *)
InputValidateExpect(cfg, in) == IF ~O!EnumsInDomain(cfg) THEN AnyX
                                ELSE IF O!Admissible(cfg, in) THEN NoErrorX ELSE ErrorX
SuiteValidateExpect(cfg) == IF ~O!EnumsInDomain(cfg) THEN AnyX
                            ELSE IF O!SuiteUsable(cfg) THEN NoErrorX ELSE ErrorX

(* ---------------- input helpers (C17) ------------------------------------- *)
To8BEExpect(v) == Value(v)                                   \* the word IS the big-endian encoding
ParseDec8Expect(s) == IF D!ParseUint64OK(s) THEN Value(D!ParseUint64(s)) ELSE ErrorX

LeftPadHex(s, w) == IF Len(s) >= w THEN SubSeq(s, Len(s) - w + 1, Len(s)) ELSE Rep(48, w - Len(s)) \o s
LeftPadHexExpect(s, w) == IF w \in 0..1048576 THEN Value(LeftPadHex(s, w)) ELSE AnyX
(* MustHexPadLeft is a documented Must* helper: it has no error result, so "malformed text is rejected" can only *)
(* mean its documented panic (class "panics"); widths outside the helper's domain stay open                      *)
MustHexPadLeftExpect(s, size) ==
    IF size \notin 0..524288 THEN AnyX
    ELSE IF HexOK(LeftPadHex(s, 2 * size)) THEN Value(HexDecode(LeftPadHex(s, 2 * size))) ELSE [class |-> "panics"]
(* left-pad to 16 hex digits, then decode; longer texts are outside "hex timestamps become 8 bytes" *)
ParseHexTimestampExpect(s) ==
    IF Len(s) > 16 THEN AnyX
    ELSE LET p == LeftPadHex(s, 16) IN IF HexOK(p) THEN Value(HexDecode(p)) ELSE ErrorX
(* five hex request fields: empty = absent, any malformed = error             *)
HexFieldsOK(f) == \A i \in 1..5 : HexOK(f[i])
HexFieldsValue(f) == [i \in 1..5 |-> HexDecode(f[i])]
(* RFC 6287 numeric question (domain: 1..64 digits, no sign)                   *)
DecChallengeExpect(s) ==
    IF D!IsDecText(s) /\ Len(s) <= 64 THEN Value(D!NumericQuestion(s))
    ELSE IF D!IsDecText(s) \/ (Len(s) > 1 /\ s[1] \in {43, 45} /\ D!IsDecText(Tail(s))) THEN AnyX   \* overlong / signed
    ELSE ErrorX

(* ---------------- provisioning URLs (C16) --------------------------------- *)
(* p = [kind, issuer, account, secret, digits, alg, period]                   *)
URLGenDefined(p) == Len(p.issuer) > 0 /\ Len(p.account) > 0 /\ Len(p.secret) > 0
URLInDomain(p) == 58 \notin {p.issuer[i] : i \in 1..Len(p.issuer)} /\ p.alg \in 0..2
NormDigits(d) == IF d = 0 THEN 6 ELSE d
NormPeriod(kind, per) == IF kind = "totp" THEN (IF per = W!Zero THEN DefaultPeriod ELSE per) ELSE DefaultPeriod

(* ---------------- string <-> enum helpers --------------------------------- *)
DigitsFromStr(s) == CASE s = <<54>> -> 6 [] s = <<56>> -> 8 [] s = <<57>> -> 9 [] s = <<49, 48>> -> 10 [] OTHER -> 6
AlgFromStr(s) == CASE s = O!tSHA1 -> 0 [] s = O!tSHA256 -> 1 [] s = O!tSHA512 -> 2 [] OTHER -> 0
AlgString(a) == CASE a = 0 -> O!tSHA1 [] a = 1 -> O!tSHA256 [] a = 2 -> O!tSHA512 [] OTHER -> <<>>

(* ---------------- random secrets (C08) ------------------------------------ *)
SecretSize(alg) == CASE alg = 0 -> 20 [] alg = 1 -> 32 [] alg = 2 -> 64 [] OTHER -> -1

(* bounded work (C04, C19): HMAC evaluations per validation call             *)
MaxWork == 21

(* ---------------- conformance of a reply with an expectation ------------- *)
(* reply = [kind, ok, haserr, val, err]                                      *)
Returned(reply) == reply.kind \in {"value", "error"}      \* not panic / hang / abort  (C10)

Conforms(reply, x) ==
    IF x.class = "panics" THEN reply.kind = "panic" ELSE
    /\ Returned(reply)
    /\ CASE x.class = "value"  -> reply.kind = "value" /\ reply.val = x.val
         [] x.class = "error"  -> reply.kind = "error"
         [] x.class = "errorNV" -> reply.kind = "error" /\ reply.val = <<>>
         [] x.class = "accept" -> reply.ok /\ ~reply.haserr
         [] x.class = "refuse" -> ~reply.ok /\ reply.haserr
         [] OTHER -> TRUE

(* C13: a validation verdict is (true, nil) or (false, err)                  *)
VerdictWellFormed(reply) == Returned(reply) /\ (reply.ok <=> ~reply.haserr)

(* C13: an error text discloses neither the secret nor an acceptable code    *)
Discloses(errText, secretText, key, codes) ==
    \/ Len(secretText) >= 16 /\ Contains(errText, Trim(secretText, B32!SureWS))
    \/ Len(key) >= 10 /\ (Contains(errText, key) \/ Contains(errText, HexEncodeLower(key))
                          \/ Contains(errText, HexEncodeUpper(key)))
    \/ \E c \in codes : Len(c) >= 6 /\ Contains(errText, c)
=============================================================================
