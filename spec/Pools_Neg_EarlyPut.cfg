SPECIFICATION Spec
CONSTANTS
  Caller = {c1, c2}
  Buf = {b1, b2, b3}
  MaxCalls = 2
  Deviation = {"EarlyPut"}
INVARIANT Inv
CHECK_DEADLOCK FALSE
