------------------------------ MODULE WindowMC ------------------------------
(* Small-scope model of the validation window loops (C03, C04, C13):         *)
(* the loop of ValidateHOTP / ValidateTOTP stepped one iteration per action  *)
(* on a 3-bit counter word (8 counters, "sign bit" = counters >= 4), for     *)
(* EVERY function from counters to codes (so accept-by-collision is covered) *)
(* every counter, every skew up to one above the limit, every submitted      *)
(* code; at termination the verdict must be the declarative one:             *)
(*   accept  <=>  submitted \in { code(c') : max(0,c-s) <= c' <= c+s }       *)
(* Variant "signed" is the pinned tree's underflow guard  int(c) < -i  and   *)
(* must violate the property (negative configuration).                       *)
EXTENDS Integers, FiniteSets, TLC

CONSTANTS Variant,      \* "hotp" | "totp" | "signed" | "noskewlimit"
          Limit         \* the skew limit, scaled (10 at real scale)

W == INSTANCE U64 WITH Base <- 2, NB <- 3
Ctr == 0..7
Codes == {0, 1}                  \* well-formed codes
Submitted == {0, 1, 2}           \* 2 = a string that is no code at all (wrong length / characters)
Skews == 0..(Limit + 1)

VARIABLES h,        \* the uninterpreted HMAC->code function, fixed per behaviour
          c, s, x,  \* counter (or time step), skew, submitted string
          i,        \* loop variable -s..s
          pc,       \* "loop" | "done"
          ok, err,  \* the (bool, error) pair returned
          work      \* derivations performed
vars == <<h, c, s, x, i, pc, ok, err, work>>

Init == /\ h \in [Ctr -> Codes] /\ c \in Ctr /\ s \in Skews /\ x \in Submitted
        /\ i = 0 /\ pc = "start" /\ ok = FALSE /\ err = FALSE /\ work = 0

Refuses == Variant # "noskewlimit" /\ s > Limit
Start == /\ pc = "start"
         /\ IF Refuses THEN pc' = "done" /\ ok' = FALSE /\ err' = TRUE /\ UNCHANGED i
            ELSE pc' = "loop" /\ i' = -s /\ UNCHANGED <<ok, err>>
         /\ UNCHANGED <<h, c, s, x, work>>

(* the guard against underflow below counter 0 *)
Skip == CASE Variant = "hotp"   -> i < 0 /\ c < -i                         \* unsigned comparison (fixed tree)
          [] Variant = "signed" -> i < 0 /\ (IF c >= 4 THEN c - 8 ELSE c) < -i   \* int64(counter) < -i (pinned tree)
          [] OTHER -> FALSE                                                 \* ValidateTOTP has no guard: domain n >= s
Iter == /\ pc = "loop" /\ i <= s
        /\ IF Skip THEN UNCHANGED <<ok, err, pc, work>>
           ELSE LET cc == (c + i) % 8 IN                                   \* uint64 arithmetic wraps
                /\ work' = work + 1
                /\ IF x # 2 /\ h[cc] = x                                   \* validate(): length check, then constant-time equality
                   THEN ok' = TRUE /\ err' = FALSE /\ pc' = "done"
                   ELSE UNCHANGED <<ok, err, pc>>
        /\ i' = i + 1
        /\ UNCHANGED <<h, c, s, x>>
Fall == /\ pc = "loop" /\ i > s
        /\ pc' = "done" /\ ok' = FALSE /\ err' = TRUE                      \* falls through to (false, ErrInvalidCode)
        /\ UNCHANGED <<h, c, s, x, i, work>>
Next == Start \/ Iter \/ Fall
Spec == Init /\ [][Next]_vars

(* the property's domain: the whole window is representable *)
InDomain == IF Variant \in {"hotp", "signed"} THEN c + s <= 7 ELSE c >= s /\ c + s <= 7
DeclWindow == { cc \in Ctr : cc >= c - s /\ cc <= c + s }
DeclAccept == x \in { h[cc] : cc \in DeclWindow }

VerdictIsDeclarative == (pc = "done" /\ InDomain /\ s <= Limit) => (ok <=> DeclAccept)
SkewRefused == (pc = "done" /\ s > Limit) => (~ok /\ err)
VerdictWellFormed == pc = "done" => (ok <=> ~err)                           \* C13
WorkBounded == work <= 2 * Limit + 1                                       \* C04: at most 21 derivations at real scale
(* the specification's own window operator agrees with the declarative set on the scaled word *)
WindowOperatorOK == W!Window(W!FromNat(c), IF s <= Limit THEN s ELSE 0) = { W!FromNat(cc) : cc \in { d \in Ctr : d >= c - (IF s <= Limit THEN s ELSE 0) /\ d <= c + (IF s <= Limit THEN s ELSE 0) } }
                    \/ c + s > 7
Inv == VerdictIsDeclarative /\ SkewRefused /\ VerdictWellFormed /\ WorkBounded /\ WindowOperatorOK
=============================================================================
