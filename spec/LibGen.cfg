SPECIFICATION Spec
CONSTANT Depth = 40
INVARIANT Dump
CHECK_DEADLOCK FALSE
