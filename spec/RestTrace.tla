------------------------------ MODULE RestTrace ------------------------------
(* The REST service (properties C18, C19): for each of the ten endpoints the *)
(* mapping from the request's fields to the library's arguments, written     *)
(* from the README / swagger description, composed with the Lib operators,   *)
(* and the response every exchange recorded from the real server binary must *)
(* show.  One event per exchange (request sent, response or deadline).       *)
(*                                                                           *)
(* Request and response fields are records [p, s, w, neg, i, b]:             *)
(*   p present, s string bytes, w number magnitude (8-byte word), neg sign,  *)
(*   i small-integer view, b boolean.                                        *)
EXTENDS LibJudge, Json, IOUtils

Trace == ndJsonDeserialize(IOEnv.VERIF_TRACE)

VARIABLES l, bad, nbad, cnt, handed     \* handed: secrets handed out by /otp/secret so far
vars == <<l, bad, nbad, cnt, handed>>
MaxBad == 60

ToSet(s) == { s[i] : i \in DOMAIN s }
FR(cond, e, p, r) == IF cond THEN <<>> ELSE << [id |-> e.id, p |-> p, r |-> r, want |-> <<>>] >>

(* ---- request field access with the documented defaults ---- *)
Blank(f) == ~f.p \/ Trim(f.s, B32!SureWS) = <<>>          \* a required text field is missing or blank
StrOr(f, d) == IF f.p THEN f.s ELSE d
Num(f) == IF f.p THEN f.w ELSE W!Zero
AlgOf(req) == AlgFromStr(StrOr(req.algorithm, <<>>))       \* unknown spellings fall back to SHA1
DigOf(req) == DigitsFromStr(StrOr(req.digits, <<>>))       \* unknown spellings fall back to 6
PeriodOr30(req) == IF req.period.p /\ req.period.w # W!Zero THEN req.period.w ELSE DefaultPeriod
HasInstant(req) == req.timestamp.p /\ ~req.timestamp.neg /\ req.timestamp.w # W!Zero

(* ---- response shapes ---- *)
Got(e) == e.resp.got
Fail(e) == Got(e) /\ e.resp.status >= 400 /\ ~(e.resp.valid.p /\ e.resp.valid.b)     \* (error bodies carry their own "code" text)
OK200(e) == Got(e) /\ e.resp.status = 200 /\ e.resp.json
Verdict(e, v) == OK200(e) /\ e.resp.valid.p /\ e.resp.valid.b = v
StrIs(f, s) == f.p /\ f.s = s

HmOf(e, a, k, m) == OLook(e.orc, a, k, m)

(* outcome of judging one exchange: "ok", "inc" (oracle miss / bad hint) or a reason string *)
GenOutcome(e, x, codeOK) ==
    CASE x.class = "value"   -> IF OK200(e) /\ StrIs(e.resp.code, x.val) /\ codeOK THEN "ok" ELSE "response is not 200 with the library's code for the request's parameters"
      [] x.class \in {"errorNV", "error"} -> IF Fail(e) THEN "ok" ELSE "the library fails for these parameters but the response is not a failure"
      [] x.class \in {"miss", "badhint"} -> "inc"
      [] OTHER -> IF Got(e) THEN "ok" ELSE "no response"
ValOutcome(e, x) ==
    CASE x.class = "accept" -> IF Verdict(e, TRUE) THEN "ok" ELSE "the library accepts this code but the response does not say valid"
      [] x.class = "refuse" -> IF Verdict(e, FALSE) THEN "ok" ELSE "the library rejects this code but the response does not say invalid"
      [] x.class \in {"miss", "badhint"} -> "inc"
      [] OTHER -> IF Got(e) THEN "ok" ELSE "no response"

(* ---- /hotp/* ---- *)
HOTPGen(e) ==
    LET req == e.req  Hm(a, k, m) == HmOf(e, a, k, m) IN
    IF Blank(req.secret) THEN (IF Fail(e) THEN "ok" ELSE "missing secret not refused")
    ELSE LET ctr == Num(req.counter)
             x == GenAtCounter(Hm, req.secret.s, ctr, AlgOf(req), DigOf(req))
         IN  GenOutcome(e, x, IF ctr = W!Zero THEN ~e.resp.counter.p ELSE e.resp.counter.p /\ e.resp.counter.w = ctr)
HOTPVal(e) ==
    LET req == e.req  Hm(a, k, m) == HmOf(e, a, k, m) IN
    IF Blank(req.secret) \/ Blank(req.code) THEN (IF Fail(e) THEN "ok" ELSE "missing secret/code not refused")
    ELSE ValOutcome(e, ValHOTPExpect(Hm, req.secret.s, req.code.s, Num(req.counter),
                                     [nil |-> FALSE, digits |-> DigOf(req), alg |-> AlgOf(req), skew |-> Num(req.skew), period |-> W!Zero]))

(* ---- /totp/* : an explicit positive timestamp is the instant, otherwise the server's clock, ---- *)
(* ---- which lies in the interval [t0, t1] measured by the client around the exchange        ---- *)
TOTPGen(e) ==
    LET req == e.req  Hm(a, k, m) == HmOf(e, a, k, m) IN
    IF Blank(req.secret) THEN (IF Fail(e) THEN "ok" ELSE "missing secret not refused")
    ELSE LET sec == IF HasInstant(req) THEN req.timestamp.w ELSE e.resp.timestamp.w
             per == PeriodOr30(req)
             (* whether a code or a failure is due does not depend on the instant: classify with a dummy digest *)
             Dummy(a, k, m) == [i \in 1..20 |-> 0]
             cls == GenAtCounter(Dummy, Trim(req.secret.s, B32!SureWS), W!Zero, AlgOf(req), DigOf(req)).class
         IN  IF ~HasInstant(req) /\ ~OK200(e)
             THEN (IF cls = "value" THEN "a well-formed request is not answered with 200 and a code"
                   ELSE IF Got(e) THEN "ok" ELSE "no response")
             ELSE IF ~HasInstant(req) /\ OK200(e) /\ ~(e.resp.timestamp.p /\ W!Leq(e.t0, sec) /\ W!Leq(sec, e.t1))
             THEN "the reported timestamp is not the server's clock at the time of the exchange"
             ELSE IF ~InTimeDomain(sec) THEN "ok"
             ELSE IF ~StepIs(e.step0, sec, per) THEN (IF OK200(e) THEN "inc" ELSE IF Got(e) THEN "ok" ELSE "no response")
             ELSE GenOutcome(e, GenAtCounter(Hm, Trim(req.secret.s, B32!SureWS), e.step0, AlgOf(req), DigOf(req)),
                             e.resp.timestamp.p /\ e.resp.timestamp.w = sec)
TOTPValAt(e, sec, step) ==
    LET req == e.req  Hm(a, k, m) == HmOf(e, a, k, m) IN
    ValTOTPExpect(Hm, Trim(req.secret.s, B32!SureWS), req.code.s, sec, step,
                  [nil |-> FALSE, digits |-> DigOf(req), alg |-> AlgOf(req), skew |-> Num(req.skew), period |-> Num(req.period)])
TOTPVal(e) ==
    LET req == e.req IN
    IF Blank(req.secret) \/ Blank(req.code) THEN (IF Fail(e) THEN "ok" ELSE "missing secret/code not refused")
    ELSE IF HasInstant(req) THEN ValOutcome(e, TOTPValAt(e, req.timestamp.w, e.step0))
    ELSE LET a == ValOutcome(e, TOTPValAt(e, e.t0, e.step0))
             b == ValOutcome(e, TOTPValAt(e, e.t1, e.step1))
         IN  IF a = "ok" \/ b = "ok" THEN "ok" ELSE IF a = "inc" \/ b = "inc" THEN "inc" ELSE a

(* ---- /ocra/* ---- *)
Known(e, name) == name \in ToSet(e.libsuites)
ReqCfg(req) == [req.suite.cfg EXCEPT !.hash = AlgFromStr(req.suite.hash), !.raw = <<>>]
HexOf(req) == [i \in 1..5 |-> IF req.hex[i].p THEN req.hex[i].s ELSE <<>>]
OCRAArgsBad(e) ==                       \* the request is refused before the library is asked for a code
    LET req == e.req IN
    \/ Blank(req.secret)
    \/ Blank(req.raw_suite) /\ ~req.suite.p
    \/ ~Blank(req.raw_suite) /\ ~Known(e, req.raw_suite.s)
    \/ ~req.inputp
    \/ req.suite.p /\ O!EnumsInDomain(ReqCfg(req)) /\ ~O!SuiteUsable(ReqCfg(req))
    \/ ~HexFieldsOK(HexOf(req))
OCRAUndecided(e) == e.req.suite.p /\ ~O!EnumsInDomain(ReqCfg(e.req))
OCRASuite(e) == IF e.req.raw_suite.p /\ e.req.raw_suite.s # <<>>
                THEN [kind |-> "raw", name |-> e.req.raw_suite.s, cfg |-> e.sucfg]
                ELSE [kind |-> "cfg", name |-> <<>>, cfg |-> ReqCfg(e.req)]
OCRAIn(e) == LET f == HexFieldsValue(HexOf(e.req)) IN
             [counter |-> f[1], challenge |-> f[2], password |-> f[3], session |-> f[4], timestamp |-> f[5]]
OCRAGen(e) ==
    LET Hm(a, k, m) == HmOf(e, a, k, m) IN
    IF OCRAUndecided(e) THEN (IF Got(e) THEN "ok" ELSE "no response")
    ELSE IF OCRAArgsBad(e) THEN (IF Fail(e) THEN "ok" ELSE "a request the service must refuse is not answered with a failure")
    ELSE LET su == OCRASuite(e)
             nameOK == IF su.kind = "raw" THEN StrIs(e.resp.suite, su.name) ELSE ~e.resp.suite.p
         IN  GenOutcome(e, GenOCRAExpect(Hm, e.req.secret.s, su, OCRAIn(e)), nameOK)
OCRAVal(e) ==
    LET Hm(a, k, m) == HmOf(e, a, k, m) IN
    IF OCRAUndecided(e) THEN (IF Got(e) THEN "ok" ELSE "no response")
    ELSE IF OCRAArgsBad(e) \/ Blank(e.req.code) THEN (IF Fail(e) THEN "ok" ELSE "a request the service must refuse is not answered with a failure")
    ELSE ValOutcome(e, ValOCRAExpect(Hm, e.req.secret.s, e.req.code.s, OCRASuite(e), OCRAIn(e)))

SuitesList(e) == IF OK200(e) /\ e.resp.suitesp /\ ToSet(e.resp.suites) = ToSet(e.libsuites) /\ Len(e.resp.suites) = Len(e.libsuites)
                 THEN "ok" ELSE "the suite list is not the library's registry"
SuiteDesc(e) ==
    LET req == e.req IN
    IF Blank(req.raw_suite) \/ ~Known(e, req.raw_suite.s) THEN (IF Fail(e) THEN "ok" ELSE "unknown suite not refused")
    ELSE LET rd == O!Reading(req.raw_suite.s) IN
         IF ~(OK200(e) /\ e.resp.configp /\ StrIs(e.resp.raw, req.raw_suite.s)) THEN "suite description missing"
         ELSE IF rd.class # "wellformed" THEN "ok"
         ELSE IF e.resp.confighash = AlgString(rd.cfg.hash)
                 /\ O!SameCfg([e.resp.config EXCEPT !.hash = rd.cfg.hash], rd.cfg, rd.tsKnown)
              THEN "ok" ELSE "the suite description differs from what the suite name says"

(* ---- /otp/url, /otp/secret ---- *)
tTotp == <<116, 111, 116, 112>>
tHotp == <<104, 111, 116, 112>>
URLGen(e) ==
    LET req == e.req  up == e.resp.up IN
    IF Blank(req.type) \/ Blank(req.secret) \/ Blank(req.issuer) \/ Blank(req.account) \/ req.type.s \notin {tTotp, tHotp}
    THEN (IF Fail(e) THEN "ok" ELSE "a URL request the service must refuse is not answered with a failure")
    ELSE IF 58 \in ToSet(req.issuer.s) THEN (IF Got(e) THEN "ok" ELSE "no response")     \* issuer with a colon: outside C16's domain
    ELSE IF OK200(e) /\ e.resp.url.p /\ up.ok /\ up.host = req.type.s
            /\ up.issuer = req.issuer.s /\ up.account = req.account.s /\ up.secret = req.secret.s
            /\ up.digits = DigOf(req) /\ up.alg = AlgOf(req)
            /\ up.period = (IF req.type.s = tTotp THEN PeriodOr30(req) ELSE DefaultPeriod)
         THEN "ok" ELSE "the provisioning URL does not describe the request's fields"
SecretGen(e) ==
    LET alg == AlgFromStr(StrOr(e.req.qalg, <<>>))  s == e.resp.secret.s IN
    IF OK200(e) /\ e.resp.secret.p /\ B32!Region(s) = "accept" /\ Len(B32!KeyOf(s)) = SecretSize(alg)
       /\ B32!EncodeNoPad(B32!KeyOf(s)) = s /\ StrIs(e.resp.algorithm, AlgString(alg)) /\ s \notin handed
    THEN "ok" ELSE "the secret endpoint does not return a fresh unpadded secret of the hash's length"

(* ---- routing ---- *)
PostPaths == {"/totp/generate", "/totp/validate", "/hotp/generate", "/hotp/validate", "/ocra/generate", "/ocra/validate", "/ocra/suite", "/otp/url"}
GetPaths == {"/ocra/suites", "/otp/secret", "/"}

Typed(e) ==
    CASE e.path = "/hotp/generate" -> HOTPGen(e) [] e.path = "/hotp/validate" -> HOTPVal(e)
      [] e.path = "/totp/generate" -> TOTPGen(e) [] e.path = "/totp/validate" -> TOTPVal(e)
      [] e.path = "/ocra/generate" -> OCRAGen(e) [] e.path = "/ocra/validate" -> OCRAVal(e)
      [] e.path = "/ocra/suites" -> SuitesList(e) [] e.path = "/ocra/suite" -> SuiteDesc(e)
      [] e.path = "/otp/url" -> URLGen(e) [] e.path = "/otp/secret" -> SecretGen(e)
      [] e.path = "/" -> (IF OK200(e) THEN "ok" ELSE "home is not answered")
      [] OTHER -> "ok"

Outcome(e) ==
    IF e.cls = "alive" THEN (IF e.probe THEN "ok" ELSE "the server process is gone")
    ELSE IF e.cls = "overlimit" THEN "ok"     \* body beyond the 1 MiB limit: outside the property's domain (the server may
                                              \* drop the connection); only the probes that follow are judged
    ELSE IF ~Got(e) THEN "no complete response within the deadline"
    ELSE IF e.path \notin (PostPaths \cup GetPaths)
         THEN (IF e.cls = "docs" THEN "ok"                      \* swagger UI: any complete response
               ELSE IF Fail(e) THEN "ok" ELSE "an unknown path is not answered with a failure status")
    ELSE IF (e.path \in PostPaths /\ e.method # "POST") \/ (e.path \in GetPaths /\ e.method # "GET")
         THEN (IF Fail(e) THEN "ok" ELSE "a wrong method is not answered with a failure")
    ELSE IF e.cls = "refused"                \* unknown / contradictory suite, unusable input: a failure, or a negative verdict
         THEN (IF Fail(e) \/ (Verdict(e, FALSE) /\ e.path \in {"/ocra/validate"}) THEN "ok"
               ELSE "a request that cannot be served is answered as a success")
    ELSE IF e.cls # "typed" THEN (IF Fail(e) THEN "ok" ELSE "a malformed request is not answered with a failure status")
    ELSE Typed(e)

RestFails(e) ==
    LET o == Outcome(e) IN
    IF o = "ok" THEN <<>>
    ELSE IF o = "inc" THEN FR(FALSE, e, "INC", "oracle table miss or bad step hint")
    ELSE FR(FALSE, e, IF e.probe \/ e.cls # "typed" \/ ~Got(e) THEN "C19" ELSE "C18", o)

RECURSIVE Bump(_, _)
Bump(nb, new) == IF new = <<>> THEN nb ELSE Bump([nb EXCEPT ![Head(new).p] = @ + 1], Tail(new))

Class(e) == IF e.cls = "typed" THEN (IF e.probe THEN "probe" ELSE "typed") ELSE "malformed"

Init == /\ l = 1 /\ bad = <<>> /\ handed = {}
        /\ nbad = [p \in {"C18", "C19", "INC"} |-> 0]
        /\ cnt = [c \in {"typed", "probe", "malformed"} |-> 0]
Step == /\ l <= Len(Trace)
        /\ LET e == Trace[l]  new == RestFails(e) IN
             /\ bad' = IF Len(bad) < MaxBad THEN bad \o new ELSE bad
             /\ nbad' = Bump(nbad, new)
             /\ cnt' = [cnt EXCEPT ![Class(e)] = @ + 1]
             /\ handed' = IF e.path = "/otp/secret" /\ e.cls = "typed" /\ e.resp.secret.p THEN handed \cup {e.resp.secret.s} ELSE handed
        /\ l' = l + 1
Spec == Init /\ [][Step]_vars
Report == (l = Len(Trace) + 1) =>
            ndJsonSerialize(IOEnv.VERIF_REPORT, << [consumed |-> l - 1, total |-> Len(Trace), bad |-> bad, nbad |-> nbad, cnt |-> cnt] >>)
=============================================================================
