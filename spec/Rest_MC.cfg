SPECIFICATION Fair
CONSTANTS
  Req = {r1, r2, r3}
  Skews = {0, 1, 2, 3, 5}
  SkewLimit = 2
  Guard = TRUE
  Workers = 2
INVARIANT Inv
PROPERTY Answered
CHECK_DEADLOCK FALSE
