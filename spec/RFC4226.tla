------------------------------ MODULE RFC4226 ------------------------------
(* HOTP value computation of RFC 4226 section 5.3 on an HMAC digest.         *)
(* The digest itself is an uninterpreted input (see Lib: Hmac).              *)
EXTENDS Bytes, TLC

(* dynamic truncation: 31-bit number at the offset given by the low nibble   *)
(* of the last byte.  < 2^31, fits a TLC integer.                            *)
DT(sum) == LET o == Last(sum) % 16 IN
           (sum[o + 1] % 128) * 16777216 + sum[o + 2] * 65536 + sum[o + 3] * 256 + sum[o + 4]

Pow10(n) == CASE n = 0 -> 1 [] n = 1 -> 10 [] n = 2 -> 100 [] n = 3 -> 1000 [] n = 4 -> 10000
              [] n = 5 -> 100000 [] n = 6 -> 1000000 [] n = 7 -> 10000000 [] n = 8 -> 100000000
              [] n = 9 -> 1000000000

(* decimal digit of weight 10^i of a number below 2^31 (0 for i >= 10,       *)
(* because 2^31 < 10^10)                                                     *)
DecDigit(bin, i) == IF i >= 10 THEN 0 ELSE (bin \div Pow10(i)) % 10

(* Snum mod 10^d rendered with exactly d characters, zero padded:            *)
(* the d least significant decimal digits of bin                             *)
Code(bin, d) == TLCEval([k \in 1..d |-> 48 + DecDigit(bin, d - k)])

HOTP(sum, d) == Code(DT(sum), d)

DigitsOK(d) == d \in 1..10
HashOK(a)   == a \in 0..2                    \* SHA1, SHA256, SHA512
HashLen(a)  == CASE a = 0 -> 20 [] a = 1 -> 32 [] a = 2 -> 64

(* RFC 4226 appendix D: intermediate HMAC values and the 6-digit results     *)
ASSUME /\ DT(<<204,147,207,24,80,141,148,147,76,100,182,93,139,167,102,127,183,205,228,176>>) = 1284755224
       /\ HOTP(<<204,147,207,24,80,141,148,147,76,100,182,93,139,167,102,127,183,205,228,176>>, 6)
            = <<55, 53, 53, 50, 50, 52>>                                              \* count 0: 755224
       /\ HOTP(<<204,147,207,24,80,141,148,147,76,100,182,93,139,167,102,127,183,205,228,176>>, 10)
            = <<49, 50, 56, 52, 55, 53, 53, 50, 50, 52>>                              \* 1284755224
       /\ DT(<<117,164,138,25,212,203,225,0,100,78,138,193,57,126,234,116,122,45,51,171>>) = 1094287082
       /\ HOTP(<<117,164,138,25,212,203,225,0,100,78,138,193,57,126,234,116,122,45,51,171>>, 6)
            = <<50, 56, 55, 48, 56, 50>>                                              \* count 1: 287082
       /\ Code(2147483647, 10) = <<50,49,52,55,52,56,51,54,52,55>>
       /\ Code(7, 3) = <<48, 48, 55>> /\ Code(123456, 4) = <<51, 52, 53, 54>>
=============================================================================
