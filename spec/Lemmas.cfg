INIT Init
NEXT Next
