------------------------------- MODULE Pools -------------------------------
(* The scratch-buffer protocol of deriveRFC4226 / deriveRFC6287 (property    *)
(* C11): Get .. fill .. HMAC over the buffer .. format .. deferred Put, run  *)
(* by any number of concurrent callers, with garbage collections emptying    *)
(* the pool and an adversary that takes buffers out of the pool, overwrites  *)
(* them and puts them back.                                                  *)
(*                                                                           *)
(* One action per step of the code that can be separated by a scheduler:     *)
(*   Get(c)       buf := pool.Get()            (any pooled buffer, or New)    *)
(*   Fill(c)      PutUint64(buf, ctr) / msg = append(buf[:0], ...)            *)
(*   FillGrow(c)  the message outgrows the buffer: append moves it to         *)
(*                private memory, the pooled buffer is left as it was         *)
(*   MacNew(c)    hp.new(secret)                                              *)
(*   MacWrite(c)  mac.Write(buf)  -- HMAC reads the buffer                    *)
(*   MacSum(c)    mac.Sum(nil); truncate; format  -- the result is a value    *)
(*   ReturnPut(c) deferred pool.Put(buf); return                              *)
(* Named deviations (off in Pools_MC.cfg, each switched on in a negative      *)
(* configuration that must violate an invariant):                            *)
(*   EarlyPut, SharedStatic, ResultAliasesBuffer                             *)
EXTENDS Integers, Sequences, FiniteSets, TLC

CONSTANTS Caller,          \* concurrent callers
          Buf,             \* buffer identities that can ever exist at once
          MaxCalls,        \* calls per caller
          Deviation        \* subset of {"EarlyPut", "SharedStatic", "ResultAliasesBuffer"}

None == 0                                \* "no buffer" (not a member of Buf)
Junk == <<"junk">>
Zero == <<"zero">>
NoData == <<"nodata">>
Kind == {"short", "long"}

VARIABLES free,      \* buffers in the pool
          content,   \* what each buffer's memory holds: a data tag, Junk, or "zero"
          adv,       \* buffers in the adversary's hands
          pc,        \* per caller: idle, got, filled, newed, written, summed
          kind,      \* per caller: kind of the call in flight
          held,      \* per caller: the pooled buffer it owns (None when idle)
          priv,      \* per caller: the message lives in private memory (after FillGrow)
          want,      \* per caller: data tag of the call in flight
          seen,      \* per caller: what HMAC read
          res,       \* per caller: result of the call in flight
          calls,     \* per caller: number of calls started
          returned   \* results handed to callers: [c, n, val, view] (view = buffer a result aliases, or None)

vars == <<free, content, adv, pc, kind, held, priv, want, seen, res, calls, returned>>

F(d) == <<"F", d>>                       \* the result is an uninterpreted function of the call's own data

InUse == { held[c] : c \in Caller } \ {None}
Unallocated == Buf \ (free \cup adv \cup InUse \cup { r.view : r \in returned })

Init == /\ free = {} /\ adv = {}
        /\ content = [b \in Buf |-> Zero]
        /\ pc = [c \in Caller |-> "idle"]
        /\ kind = [c \in Caller |-> "short"]
        /\ held = [c \in Caller |-> None]
        /\ priv = [c \in Caller |-> FALSE]
        /\ want = [c \in Caller |-> NoData]
        /\ seen = [c \in Caller |-> NoData]
        /\ res = [c \in Caller |-> NoData]
        /\ calls = [c \in Caller |-> 0]
        /\ returned = {}

(* pool.Get(): any buffer of the pool, or a new one when the pool offers none *)
(* (sync.Pool may also return New although buffers are pooled)                *)
Get(c) ==
    /\ pc[c] = "idle" /\ calls[c] < MaxCalls
    /\ \E k \in Kind :
       \E b \in (IF "SharedStatic" \in Deviation THEN {CHOOSE x \in Buf : TRUE} ELSE free \cup Unallocated) :
          /\ held' = [held EXCEPT ![c] = b]
          /\ free' = free \ {b}
          /\ content' = IF b \in free \/ "SharedStatic" \in Deviation THEN content ELSE [content EXCEPT ![b] = Zero]
          /\ kind' = [kind EXCEPT ![c] = k]
    /\ pc' = [pc EXCEPT ![c] = "got"]
    /\ calls' = [calls EXCEPT ![c] = @ + 1]
    /\ want' = [want EXCEPT ![c] = <<c, calls[c] + 1>>]
    /\ priv' = [priv EXCEPT ![c] = FALSE]
    /\ UNCHANGED <<adv, seen, res, returned>>

Fill(c) ==
    /\ pc[c] = "got" /\ kind[c] = "short"
    /\ content' = [content EXCEPT ![held[c]] = want[c]]
    /\ pc' = [pc EXCEPT ![c] = "filled"]
    /\ UNCHANGED <<free, adv, kind, held, priv, want, seen, res, calls, returned>>

FillGrow(c) ==
    /\ pc[c] = "got" /\ kind[c] = "long"
    /\ priv' = [priv EXCEPT ![c] = TRUE]
    (* the first 256 bytes were written into the pooled buffer before append reallocated *)
    /\ content' = [content EXCEPT ![held[c]] = Junk]
    /\ pc' = [pc EXCEPT ![c] = "filled"]
    /\ UNCHANGED <<free, adv, kind, held, want, seen, res, calls, returned>>

MacNew(c) ==
    /\ pc[c] = "filled"
    /\ pc' = [pc EXCEPT ![c] = "newed"]
    /\ UNCHANGED <<free, content, adv, kind, held, priv, want, seen, res, calls, returned>>

MacWrite(c) ==
    /\ pc[c] = "newed"
    /\ seen' = [seen EXCEPT ![c] = IF priv[c] THEN want[c] ELSE content[held[c]]]
    /\ pc' = [pc EXCEPT ![c] = "written"]
    /\ UNCHANGED <<free, content, adv, kind, held, priv, want, res, calls, returned>>

MacSum(c) ==
    /\ pc[c] = "written"
    /\ res' = [res EXCEPT ![c] = F(seen[c])]
    /\ pc' = [pc EXCEPT ![c] = "summed"]
    /\ UNCHANGED <<free, content, adv, kind, held, priv, want, seen, calls, returned>>

(* Once HMAC has read the buffer the call does not touch it again: giving it up before the return   *)
(* (an earlier Put, or a per-call buffer that the collector reclaims) is as good as the deferred Put. *)
ReleaseAfterUse(c) ==
    /\ pc[c] \in {"written", "summed"} /\ held[c] # None
    /\ \/ free' = free \cup {held[c]}
       \/ free' = free                      \* dropped: the memory becomes unallocated
    /\ held' = [held EXCEPT ![c] = None]
    /\ UNCHANGED <<content, adv, pc, kind, priv, want, seen, res, calls, returned>>

ReturnPut(c) ==
    /\ pc[c] = "summed"
    /\ free' = IF "SharedStatic" \in Deviation \/ held[c] = None THEN free ELSE free \cup {held[c]}
    /\ returned' = returned \cup {[c |-> c, n |-> calls[c], val |-> res[c],
                                  view |-> IF "ResultAliasesBuffer" \in Deviation /\ ~priv[c] /\ held[c] # None THEN held[c] ELSE None]}
    /\ held' = [held EXCEPT ![c] = None]
    /\ pc' = [pc EXCEPT ![c] = "idle"]
    /\ UNCHANGED <<content, adv, kind, priv, want, seen, res, calls>>

(* ---- environment ---- *)
GC == /\ free # {}
      /\ free' = {}
      /\ UNCHANGED <<content, adv, pc, kind, held, priv, want, seen, res, calls, returned>>

AdvGet == \E b \in free :
            /\ free' = free \ {b} /\ adv' = adv \cup {b}
            /\ UNCHANGED <<content, pc, kind, held, priv, want, seen, res, calls, returned>>
AdvScribble == \E b \in adv :
            /\ content[b] # Junk
            /\ content' = [content EXCEPT ![b] = Junk]
            /\ UNCHANGED <<free, adv, pc, kind, held, priv, want, seen, res, calls, returned>>
AdvPut == \E b \in adv :
            /\ adv' = adv \ {b} /\ free' = free \cup {b}
            /\ UNCHANGED <<content, pc, kind, held, priv, want, seen, res, calls, returned>>

(* ---- named deviations ---- *)
EarlyPut(c) ==                       \* Put before the buffer has been read
    /\ "EarlyPut" \in Deviation
    /\ pc[c] = "filled" /\ held[c] \notin free
    /\ free' = free \cup {held[c]}
    /\ UNCHANGED <<content, adv, pc, kind, held, priv, want, seen, res, calls, returned>>

Next == \/ \E c \in Caller : Get(c) \/ Fill(c) \/ FillGrow(c) \/ MacNew(c) \/ MacWrite(c) \/ MacSum(c)
                             \/ ReturnPut(c) \/ EarlyPut(c) \/ ReleaseAfterUse(c)
        \/ GC \/ AdvGet \/ AdvScribble \/ AdvPut

Spec == Init /\ [][Next]_vars
Fair == Spec /\ \A c \in Caller : WF_vars(Fill(c) \/ FillGrow(c) \/ MacNew(c) \/ MacWrite(c) \/ MacSum(c) \/ ReturnPut(c))

(* ---- properties (C11) ---- *)
TypeOK == /\ free \subseteq Buf /\ adv \subseteq Buf
          /\ \A c \in Caller : held[c] \in Buf \cup {None}

(* a buffer in use is in nobody else's hands *)
Exclusive == \A c \in Caller : held[c] # None =>
                /\ held[c] \notin free
                /\ held[c] \notin adv
                /\ \A d \in Caller \ {c} : held[d] # held[c]

(* HMAC reads the caller's own data *)
ReadsOwnData == \A c \in Caller : pc[c] \in {"written", "summed"} => seen[c] = want[c]

(* every returned result is what the call returns when it runs alone *)
ValueOf(r) == IF r.view = None THEN r.val ELSE F(content[r.view])
ResultCorrect == \A r \in returned : r.val = F(<<r.c, r.n>>)
(* ... and it never changes afterwards *)
ResultStable == \A r \in returned : ValueOf(r) = r.val

Inv == TypeOK /\ Exclusive /\ ReadsOwnData /\ ResultCorrect /\ ResultStable

(* every started call finishes (no caller can block another) *)
Progress == \A c \in Caller : (pc[c] # "idle") ~> (pc[c] = "idle")

(* symmetry-free VIEW is not needed: all variables are behaviour-relevant *)
=============================================================================
