SPECIFICATION Spec
CONSTANTS
  Variant = "totp"
  Limit = 2
INVARIANT Inv
CHECK_DEADLOCK FALSE
