-------------------------------- MODULE Rest --------------------------------
(* Design-level model of the REST service's request handling (C19, and the   *)
(* shape of C18): requests arrive at any time, a bounded number of workers   *)
(* handle them, every request is answered with a complete response whose     *)
(* status class tells success from failure, a handler panic is turned into a *)
(* 500 by the recovery middleware, and the work per request is bounded       *)
(* because the library refuses a skew above 10 (Guard).  The negative        *)
(* configuration switches the guard off: the window loop then runs           *)
(* 2*skew+1 HMAC evaluations for a client-chosen skew.                        *)
EXTENDS Integers, FiniteSets

CONSTANTS Req, Skews, SkewLimit, Guard, Workers    \* scaled: SkewLimit stands for the documented maximum 10

Classes == {"wellformed", "malformed", "panics"}
MaxWork == 2 * SkewLimit + 1                        \* 21 at real scale

VARIABLES st,      \* per request: new, received, working, responded
          cls,     \* per request: its class (chosen by the client)
          skew,    \* per request: the skew it asks for
          work,    \* per request: HMAC evaluations done
          status   \* per request: status of the response (0 = none yet)
vars == <<st, cls, skew, work, status>>

Need(r) == IF cls[r] # "wellformed" THEN 0
           ELSE IF Guard /\ skew[r] > SkewLimit THEN 0            \* refused before any work
           ELSE 2 * skew[r] + 1

Init == /\ st = [r \in Req |-> "new"]
        /\ cls \in [Req -> Classes]
        /\ skew \in [Req -> Skews]
        /\ work = [r \in Req |-> 0]
        /\ status = [r \in Req |-> 0]

Receive(r) == st[r] = "new" /\ st' = [st EXCEPT ![r] = "received"] /\ UNCHANGED <<cls, skew, work, status>>
Start(r) == /\ st[r] = "received"
            /\ Cardinality({q \in Req : st[q] = "working"}) < Workers
            /\ st' = [st EXCEPT ![r] = "working"] /\ UNCHANGED <<cls, skew, work, status>>
Work(r) == /\ st[r] = "working" /\ work[r] < Need(r)
           /\ work' = [work EXCEPT ![r] = @ + 1] /\ UNCHANGED <<st, cls, skew, status>>
Respond(r) == /\ st[r] = "working" /\ work[r] = Need(r)
              /\ st' = [st EXCEPT ![r] = "responded"]
              /\ status' = [status EXCEPT ![r] = CASE cls[r] = "wellformed" -> 200 [] cls[r] = "malformed" -> 400 [] OTHER -> 500]
              /\ UNCHANGED <<cls, skew, work>>

Next == \E r \in Req : Receive(r) \/ Start(r) \/ Work(r) \/ Respond(r)
Spec == Init /\ [][Next]_vars
Fair == Spec /\ \A r \in Req : WF_vars(Start(r)) /\ WF_vars(Work(r)) /\ WF_vars(Respond(r))

BoundedWork == \A r \in Req : work[r] <= MaxWork
StatusClass == \A r \in Req : st[r] = "responded" => (status[r] = 200 <=> cls[r] = "wellformed") /\ status[r] \in {200, 400, 500}
Inv == BoundedWork /\ StatusClass
Answered == \A r \in Req : (st[r] = "received") ~> (st[r] = "responded")
=============================================================================
