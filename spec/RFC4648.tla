------------------------------ MODULE RFC4648 ------------------------------
(* Base32 (RFC 4648 section 6) over byte strings, and the secret-decoding    *)
(* relation of property C07 with its three regions:                          *)
(*   must-accept (exact bytes)  /  must-reject  /  unspecified.              *)
EXTENDS Bytes, TLC

Pow2(n) == CASE n = 0 -> 1 [] n = 1 -> 2 [] n = 2 -> 4 [] n = 3 -> 8 [] n = 4 -> 16
             [] n = 5 -> 32 [] n = 6 -> 64 [] n = 7 -> 128

(* alphabet: index 0..25 -> 'A'..'Z', 26..31 -> '2'..'7'                     *)
B32Char(v) == IF v < 26 THEN 65 + v ELSE 24 + v           \* 50 + (v - 26)
IsB32Upper(c) == c \in 65..90 \/ c \in 50..55
IsB32Any(c)   == IsB32Upper(c) \/ c \in 97..122
B32Val(c) == IF c \in 65..90 THEN c - 65 ELSE c - 24      \* c upper-case alphabet char

(* bit j (0-based, most significant first) of the byte string, 0 beyond end  *)
BitOf(b, j) == IF j \div 8 + 1 > Len(b) THEN 0 ELSE (b[j \div 8 + 1] \div Pow2(7 - (j % 8))) % 2

NChars(n) == (8 * n + 4) \div 5                            \* ceil(8n/5)
(* canonical unpadded upper-case encoding                                    *)
EncodeNoPad(b) == [k \in 1..NChars(Len(b)) |->
                     LET j == 5 * (k - 1) IN
                     B32Char(16 * BitOf(b, j) + 8 * BitOf(b, j + 1) + 4 * BitOf(b, j + 2)
                             + 2 * BitOf(b, j + 3) + BitOf(b, j + 4))]
CanonPad(nchars) == (8 - (nchars % 8)) % 8
Encode(b) == LET e == EncodeNoPad(b) IN e \o Rep(61, CanonPad(Len(e)))

(* bit j of a sequence of 5-bit values                                       *)
VBit(v, j) == (v[j \div 5 + 1] \div Pow2(4 - (j % 5))) % 2
(* bytes denoted by an upper-case alphabet string (length not 1,3,6 mod 8);  *)
(* left-over bits are dropped                                                *)
(* (TLCEval only forces TLC to build the tuple once instead of re-evaluating *)
(* the lazily represented function at every application)                     *)
DecodeCore(u) == LET v == TLCEval([i \in 1..Len(u) |-> B32Val(u[i])]) IN
                 [k \in 1..((5 * Len(u)) \div 8) |->
                     LET j == 8 * (k - 1) IN
                     128 * VBit(v, j) + 64 * VBit(v, j + 1) + 32 * VBit(v, j + 2) + 16 * VBit(v, j + 3)
                     + 8 * VBit(v, j + 4) + 4 * VBit(v, j + 5) + 2 * VBit(v, j + 6) + VBit(v, j + 7)]

(* ---- the decoding relation of C07 ---- *)
SureWS == {32, 9, 10, 13}                   \* space, tab, LF, CR: "surrounded by white space"
RECURSIVE StripPad(_)
StripPad(s) == IF Len(s) > 0 /\ s[Len(s)] = 61 THEN StripPad(SubSeq(s, 1, Len(s) - 1)) ELSE s

(* Bytes at the edges that some notions of "white space" include and others  *)
(* do not (VT, FF, and anything non-ASCII: NEL, NBSP, Unicode spaces).  The  *)
(* property does not say whether they are trimmed: unspecified region.       *)
EdgeAmbiguous(t) == Len(t) > 0 /\ (t[1] \in {11, 12} \/ t[1] >= 128 \/ t[Len(t)] \in {11, 12} \/ t[Len(t)] >= 128)

(* the bits of the last character that do not belong to a whole byte are 0  *)
(* (equivalently: re-encoding the decoded bytes gives the text back;         *)
(*  checked against that formulation in RFC4648_MC)                          *)
TrailingBitsZero(core) ==
    Len(core) = 0 \/ B32Val(AsciiUpper(core[Len(core)])) % Pow2((5 * Len(core)) % 8) = 0
ReencodesTo(core) == EncodeNoPad(DecodeCore(UpperSeq(core))) = UpperSeq(core)

Region(text) ==
    LET t    == Trim(text, SureWS)
        core == StripPad(t)
        npad == Len(t) - Len(core)
    IN  IF EdgeAmbiguous(t) THEN "unspecified"
        ELSE IF \E i \in 1..Len(core) : ~IsB32Any(core[i]) THEN "reject"   \* incl. '=' in the middle
        ELSE IF Len(core) % 8 \in {1, 3, 6} THEN "reject"
        ELSE IF npad > CanonPad(Len(core)) THEN "unspecified"              \* over-padding
        ELSE IF ~TrailingBitsZero(core) THEN "unspecified"                  \* non-canonical last character
        ELSE "accept"

(* the key of an accepted text                                               *)
KeyOf(text) == TLCEval(DecodeCore(TLCEval(UpperSeq(StripPad(Trim(text, SureWS))))))

(* Judge a DecodeSecret outcome: ok = no error, val = returned bytes         *)
DecodeReplyOK(text, ok, val) ==
    CASE Region(text) = "accept" -> ok /\ val = KeyOf(text)
      [] Region(text) = "reject" -> ~ok
      [] OTHER -> TRUE

(* RFC 4648 section 10 test vectors                                          *)
ASSUME /\ Encode(<<>>) = <<>>
       /\ Encode(<<102>>) = <<77, 89, 61, 61, 61, 61, 61, 61>>                       \* "f"      -> MY======
       /\ Encode(<<102, 111>>) = <<77, 90, 88, 81, 61, 61, 61, 61>>                  \* "fo"     -> MZXQ====
       /\ Encode(<<102, 111, 111>>) = <<77, 90, 88, 87, 54, 61, 61, 61>>             \* "foo"    -> MZXW6===
       /\ Encode(<<102, 111, 111, 98>>) = <<77, 90, 88, 87, 54, 89, 81, 61>>         \* "foob"   -> MZXW6YQ=
       /\ Encode(<<102, 111, 111, 98, 97>>) = <<77, 90, 88, 87, 54, 89, 84, 66>>     \* "fooba"  -> MZXW6YTB
       /\ Encode(<<102, 111, 111, 98, 97, 114>>)
            = <<77, 90, 88, 87, 54, 89, 84, 66, 79, 73, 61, 61, 61, 61, 61, 61>>     \* "foobar" -> MZXW6YTBOI======
       /\ KeyOf(<<32, 109, 122, 120, 119, 54, 121, 116, 98, 111, 105, 10>>) = <<102, 111, 111, 98, 97, 114>>
       /\ Region(<<77, 89>>) = "accept" /\ Region(<<77>>) = "reject" /\ Region(<<77, 49>>) = "reject"
       /\ Region(<<77, 61, 89>>) = "reject" /\ Region(<<77, 90>>) = "unspecified"
=============================================================================
