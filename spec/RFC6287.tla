------------------------------ MODULE RFC6287 ------------------------------
(* OCRA (RFC 6287): suite configurations, usability, admission of inputs,    *)
(* the message layout, and an independent reading of suite strings.          *)
(*                                                                           *)
(* A configuration is a record                                               *)
(*   [raw, hash, digits, chal, c, q, p, s, t, ph, ts]                        *)
(* raw = suite-string bytes; hash 0/1/2 = SHA1/256/512; chal 0 = none,       *)
(* 1..6 = N08 N10 A08 A10 H08 H10; ph 0 = none, 1..3 = SHA1/256/512;         *)
(* ts = time step in seconds; c q p s t = which inputs are selected.         *)
(* An input is [counter, challenge, password, session, timestamp] (bytes).   *)
EXTENDS Bytes, TLC

R4 == INSTANCE RFC4226

(* ---------------- usability of a suite (C14) ----------------------------- *)
EnumsInDomain(cfg) == cfg.chal \in 0..6 /\ cfg.ph \in 0..3
SuiteUsable(cfg) ==
    /\ cfg.digits \in 4..10
    /\ cfg.hash \in 0..2
    /\ cfg.p => cfg.ph # 0
    /\ cfg.t => cfg.ts > 0
    /\ cfg.q => cfg.chal # 0

(* ---------------- admission of an input (C14) ---------------------------- *)
MinChallenge(chal) == IF chal \in {1, 3, 5} THEN 8 ELSE IF chal \in {2, 4, 6} THEN 10 ELSE 0
PasswordLen(ph) == CASE ph = 1 -> 20 [] ph = 2 -> 32 [] ph = 3 -> 64 [] OTHER -> -1

Admissible(cfg, in) ==
    /\ cfg.c => Len(in.counter) = 8
    /\ cfg.q => Len(in.challenge) >= MinChallenge(cfg.chal) /\ Len(in.challenge) <= 128
    /\ cfg.p => Len(in.password) = PasswordLen(cfg.ph)
    /\ cfg.s => Len(in.session) <= 128
    /\ cfg.t => Len(in.timestamp) = 8

(* operational twin shaped like OCRAInput.Validate: first failing rule, in the code's order (0 = admitted) *)
FirstFailingRule(cfg, in) ==
    IF cfg.c /\ Len(in.counter) # 8 THEN 1
    ELSE IF cfg.q /\ Len(in.challenge) < MinChallenge(cfg.chal) THEN 2
    ELSE IF cfg.q /\ Len(in.challenge) > 128 THEN 3
    ELSE IF cfg.p /\ Len(in.password) = 0 THEN 4
    ELSE IF cfg.p /\ cfg.ph \in 1..3 /\ Len(in.password) # PasswordLen(cfg.ph) THEN 5
    ELSE IF cfg.s /\ Len(in.session) > 128 THEN 6
    ELSE IF cfg.t /\ Len(in.timestamp) # 8 THEN 7
    ELSE 0

(* ---------------- the message (C05) -------------------------------------- *)
(* suite string, one zero byte, then exactly the selected fields in the      *)
(* order C(8) Q(128, right-padded) P(as given) S(128, right-padded) T(8)     *)
Msg(cfg, in) ==
    TLCEval(cfg.raw \o <<0>>
            \o (IF cfg.c THEN PadRight(in.counter, 8) ELSE <<>>)
            \o (IF cfg.q THEN PadRight(in.challenge, 128) ELSE <<>>)
            \o (IF cfg.p THEN in.password ELSE <<>>)
            \o (IF cfg.s THEN PadRight(in.session, 128) ELSE <<>>)
            \o (IF cfg.t THEN PadRight(in.timestamp, 8) ELSE <<>>))

MsgLen(cfg, in) == Len(cfg.raw) + 1 + (IF cfg.c THEN 8 ELSE 0) + (IF cfg.q THEN 128 ELSE 0)
                   + (IF cfg.p THEN Len(in.password) ELSE 0) + (IF cfg.s THEN 128 ELSE 0) + (IF cfg.t THEN 8 ELSE 0)

OCRA(sum, digits) == R4!HOTP(sum, digits)

(* two inputs that agree on the selected fields                              *)
AgreeOnSelected(cfg, a, b) ==
    /\ cfg.c => a.counter = b.counter
    /\ cfg.q => a.challenge = b.challenge
    /\ cfg.p => a.password = b.password
    /\ cfg.s => a.session = b.session
    /\ cfg.t => a.timestamp = b.timestamp

(* ---------------- reading a suite string (C15) --------------------------- *)
(* OCRA-1:HOTP-<hash>-<digits>:[C-]Q<N|A|H><08|10>[-PSHA<1|256|512>][-S[nnn]][-T<n><S|M|H>] *)
RECURSIVE SplitAt(_, _, _, _)
SplitAt(s, sep, i, cur) ==
    IF i > Len(s) THEN <<cur>>
    ELSE IF s[i] = sep THEN <<cur>> \o SplitAt(s, sep, i + 1, <<>>)
    ELSE SplitAt(s, sep, i + 1, Append(cur, s[i]))
Split(s, sep) == SplitAt(s, sep, 1, <<>>)

tOCRA1 == <<79, 67, 82, 65, 45, 49>>          \* "OCRA-1"
tHOTP  == <<72, 79, 84, 80>>                  \* "HOTP"
tSHA1  == <<83, 72, 65, 49>>
tSHA256 == <<83, 72, 65, 50, 53, 54>>
tSHA512 == <<83, 72, 65, 53, 49, 50>>
tPSHA1  == <<80>> \o tSHA1
tPSHA256 == <<80>> \o tSHA256
tPSHA512 == <<80>> \o tSHA512
t08 == <<48, 56>>
t10 == <<49, 48>>

HashOfToken(t) == CASE t = tSHA1 -> 0 [] t = tSHA256 -> 1 [] t = tSHA512 -> 2 [] OTHER -> -1
PHOfToken(t)   == CASE t = tPSHA1 -> 1 [] t = tPSHA256 -> 2 [] t = tPSHA512 -> 3 [] OTHER -> 0

RECURSIVE DecN(_, _)
DecN(s, k) == IF k = 0 THEN 0 ELSE DecN(s, k - 1) * 10 + (s[k] - 48)
(* canonical small decimal: digits only, no leading zero (except "0"), at most 4 digits *)
CanonDec(s) == Len(s) \in 1..4 /\ AllDigits(s) /\ (Len(s) = 1 \/ s[1] # 48)
DecOf(s) == DecN(s, Len(s))

(* token classification (exact, upper-case spelling = the RFC's)              *)
IsC(t) == t = <<67>>
IsQ(t) == Len(t) = 4 /\ t[1] = 81 /\ t[2] \in {78, 65, 72} /\ SubSeq(t, 3, 4) \in {t08, t10}
ChalOf(t) == (CASE t[2] = 78 -> 1 [] t[2] = 65 -> 3 [] t[2] = 72 -> 5) + (IF SubSeq(t, 3, 4) = t10 THEN 1 ELSE 0)
IsP(t) == PHOfToken(t) # 0
IsS(t) == Len(t) >= 1 /\ t[1] = 83 /\ (Len(t) = 1 \/ (Len(t) = 4 /\ AllDigits(Tail(t))))
(* T<n><S|M|H> with a canonical number; T<n> without unit is what 12 registered names use *)
IsTUnit(t) == Len(t) >= 3 /\ t[1] = 84 /\ Last(t) \in {83, 77, 72} /\ CanonDec(SubSeq(t, 2, Len(t) - 1))
IsTBare(t) == Len(t) >= 2 /\ t[1] = 84 /\ CanonDec(Tail(t))
TSeconds(t) == LET n == DecOf(SubSeq(t, 2, Len(t) - 1)) IN
               CASE Last(t) = 83 -> n [] Last(t) = 77 -> 60 * n [] Last(t) = 72 -> 3600 * n
IsT(t) == IsTUnit(t) \/ IsTBare(t)
KnownToken(t) == IsC(t) \/ IsQ(t) \/ IsP(t) \/ IsS(t) \/ IsT(t)

(* the data-input tokens are well formed: each kind at most once, in the order C Q P S T, at least one *)
Rank(t) == CASE IsC(t) -> 1 [] IsQ(t) -> 2 [] IsP(t) -> 3 [] IsS(t) -> 4 [] IsT(t) -> 5 [] OTHER -> 0
OrderedTokens(toks) == /\ Len(toks) >= 1
                       /\ \A i \in 1..Len(toks) : KnownToken(toks[i])
                       /\ \A i \in 1..(Len(toks) - 1) : Rank(toks[i]) < Rank(toks[i + 1])

(* Reading(str) = [class, cfg, tsKnown]:                                      *)
(*   "wellformed": the string follows the grammar; cfg is what it denotes     *)
(*                 (tsKnown = FALSE for a unit-less T token: only ts > 0)     *)
(*   "malformed" : missing parts, wrong version, unknown crypto function,     *)
(*                 unknown tokens, digits outside 4..10, time value 0         *)
(*   "other"     : everything the property does not classify (letter case,    *)
(*                 token order, repeated tokens, extra parts, odd numerals)   *)
NoCfg == [raw |-> <<>>, hash |-> 0, digits |-> 0, chal |-> 0, c |-> FALSE, q |-> FALSE, p |-> FALSE,
          s |-> FALSE, t |-> FALSE, ph |-> 0, ts |-> 0]

Reading(str) ==
    LET parts == Split(str, 58) IN
    IF Len(parts) < 3 THEN [class |-> "malformed", cfg |-> NoCfg, tsKnown |-> TRUE]
    ELSE IF UpperSeq(parts[1]) # tOCRA1 THEN [class |-> "malformed", cfg |-> NoCfg, tsKnown |-> TRUE]
    ELSE
    LET cr   == Split(parts[2], 45)
        toks == Split(parts[3], 45)
        up   == [i \in 1..Len(toks) |-> UpperSeq(toks[i])]
    IN
    IF Len(cr) # 3 \/ UpperSeq(cr[1]) # tHOTP \/ HashOfToken(UpperSeq(cr[2])) < 0 \/ ~(Len(cr[3]) >= 1 /\ AllDigits(cr[3]))
    THEN [class |-> "malformed", cfg |-> NoCfg, tsKnown |-> TRUE]
    ELSE IF \E i \in 1..Len(up) : ~KnownToken(up[i]) /\ ~(Len(up[i]) >= 1 /\ up[i][1] \in {81, 83, 84})
    THEN [class |-> "malformed", cfg |-> NoCfg, tsKnown |-> TRUE]                 \* a token of no known kind
    ELSE IF CanonDec(cr[3]) /\ DecOf(cr[3]) \notin 4..10
    THEN [class |-> "malformed", cfg |-> NoCfg, tsKnown |-> TRUE]
    ELSE IF \E i \in 1..Len(up) : IsTUnit(up[i]) /\ TSeconds(up[i]) = 0
    THEN [class |-> "malformed", cfg |-> NoCfg, tsKnown |-> TRUE]
    ELSE IF Len(parts) # 3 \/ parts[1] # tOCRA1 \/ cr[1] # tHOTP \/ HashOfToken(cr[2]) < 0 \/ ~CanonDec(cr[3])
            \/ ~OrderedTokens(toks)
    THEN [class |-> "other", cfg |-> NoCfg, tsKnown |-> TRUE]
    ELSE
    LET has(Pred(_)) == \E i \in 1..Len(toks) : Pred(toks[i])
        the(Pred(_)) == toks[CHOOSE i \in 1..Len(toks) : Pred(toks[i])]
    IN  [class |-> "wellformed",
         tsKnown |-> ~has(IsTBare),
         cfg |-> [raw |-> str, hash |-> HashOfToken(cr[2]), digits |-> DecOf(cr[3]),
                  c |-> has(IsC), q |-> has(IsQ), p |-> has(IsP), s |-> has(IsS), t |-> has(IsT),
                  chal |-> IF has(IsQ) THEN ChalOf(the(IsQ)) ELSE 0,
                  ph |-> IF has(IsP) THEN PHOfToken(the(IsP)) ELSE 0,
                  ts |-> IF has(IsTUnit) THEN TSeconds(the(IsTUnit)) ELSE 0]]

(* equality of a reported configuration with a reading                        *)
SameCfg(a, b, tsKnown) ==
    /\ a.hash = b.hash /\ a.digits = b.digits /\ a.chal = b.chal /\ a.ph = b.ph
    /\ a.c = b.c /\ a.q = b.q /\ a.p = b.p /\ a.s = b.s /\ a.t = b.t
    /\ IF ~b.t THEN a.ts = 0 ELSE IF tsKnown THEN a.ts = b.ts ELSE a.ts > 0
=============================================================================
