------------------------------ MODULE PoolsGen ------------------------------
(* Behaviour generation from Pools (spec -> implementation): Pools with a    *)
(* history variable that records the action labels; run with                 *)
(*   tlc -simulate num=N -depth D                                            *)
(* and the invariant Dump prints each behaviour of length Depth as JSON.     *)
(* The harness replays the action sequence on the real code through gates.   *)
EXTENDS Pools, Json

CONSTANT Depth
VARIABLE hist

GInit == Init /\ hist = <<>>
Lab(name, c) == hist' = Append(hist, [a |-> name, c |-> c, k |-> kind'[c]])
Env(name) == hist' = Append(hist, [a |-> name, c |-> 0, k |-> "-"])
GNext == /\ Len(hist) < Depth
         /\ \/ \E c \in Caller : \/ Get(c) /\ Lab("Get", c)
                                 \/ Fill(c) /\ Lab("Fill", c)
                                 \/ FillGrow(c) /\ Lab("FillGrow", c)
                                 \/ MacNew(c) /\ Lab("MacNew", c)
                                 \/ MacWrite(c) /\ Lab("MacWrite", c)
                                 \/ MacSum(c) /\ Lab("MacSum", c)
                                 \/ ReturnPut(c) /\ Lab("ReturnPut", c)
                                 \/ ReleaseAfterUse(c) /\ Lab("ReleaseAfterUse", c)
            \/ GC /\ Env("GC")
            \/ AdvGet /\ Env("AdvGet")
            \/ AdvScribble /\ Env("AdvScribble")
            \/ AdvPut /\ Env("AdvPut")
GSpec == GInit /\ [][GNext]_<<vars, hist>>
Dump == Len(hist) < Depth \/ PrintT(<<"SCHED", ToJson(hist)>>)
=============================================================================
