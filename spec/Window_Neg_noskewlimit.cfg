SPECIFICATION Spec
CONSTANTS
  Variant = "noskewlimit"
  Limit = 2
INVARIANT Inv
CHECK_DEADLOCK FALSE
