SPECIFICATION Spec
CONSTANTS
  Variant = "signed"
  Limit = 2
INVARIANT Inv
CHECK_DEADLOCK FALSE
