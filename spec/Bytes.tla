------------------------------- MODULE Bytes -------------------------------
(* Byte strings.  All text that crosses the boundary between the            *)
(* implementation and the specification (secrets, codes, suite strings,     *)
(* error messages, URLs) is a sequence of bytes 0..255, never a TLA+        *)
(* string, so invalid UTF-8 and non-ASCII text are ordinary values.         *)
EXTENDS Integers, Sequences, FiniteSets

Byte == 0..255

IsBytes(s) == \A i \in 1..Len(s) : s[i] \in Byte

Rep(b, n) == [i \in 1..n |-> b]

Max(a, b) == IF a >= b THEN a ELSE b
Min(a, b) == IF a <= b THEN a ELSE b

(* Go:  padBytes(in, w) -- right zero padding or truncation to w bytes       *)
PadRight(s, w) == IF Len(s) >= w THEN SubSeq(s, 1, w) ELSE s \o Rep(0, w - Len(s))

(* left padding with byte b up to width w (no truncation)                    *)
PadLeft(s, b, w) == IF Len(s) >= w THEN s ELSE Rep(b, w - Len(s)) \o s

Last(s) == s[Len(s)]

(* needle occurs in hay as a contiguous sub-sequence (needle non-empty)      *)
Contains(hay, needle) ==
    /\ Len(needle) > 0
    /\ \E i \in 0..(Len(hay) - Len(needle)) : SubSeq(hay, i + 1, i + Len(needle)) = needle

HasPrefix(s, p) == Len(s) >= Len(p) /\ SubSeq(s, 1, Len(p)) = p

(* ASCII classes                                                             *)
IsDigit(c)  == c \in 48..57
IsUpper(c)  == c \in 65..90
IsLower(c)  == c \in 97..122
IsHexDigit(c) == IsDigit(c) \/ c \in 65..70 \/ c \in 97..102
AsciiUpper(c) == IF IsLower(c) THEN c - 32 ELSE c
UpperSeq(s) == [i \in 1..Len(s) |-> AsciiUpper(s[i])]

AllDigits(s) == \A i \in 1..Len(s) : IsDigit(s[i])

(* hexadecimal: Go encoding/hex acceptance = even length, all hex digits     *)
HexVal(c) == IF IsDigit(c) THEN c - 48 ELSE IF c \in 65..70 THEN c - 55 ELSE c - 87
HexOK(s) == Len(s) % 2 = 0 /\ \A i \in 1..Len(s) : IsHexDigit(s[i])
HexDecode(s) == [i \in 1..(Len(s) \div 2) |-> 16 * HexVal(s[2*i - 1]) + HexVal(s[2*i])]
HexDigitLower(v) == IF v < 10 THEN 48 + v ELSE 87 + v
HexDigitUpper(v) == IF v < 10 THEN 48 + v ELSE 55 + v
HexEncodeLower(b) == [i \in 1..(2 * Len(b)) |->
                        IF i % 2 = 1 THEN HexDigitLower(b[(i + 1) \div 2] \div 16)
                                     ELSE HexDigitLower(b[i \div 2] % 16)]
HexEncodeUpper(b) == [i \in 1..(2 * Len(b)) |->
                        IF i % 2 = 1 THEN HexDigitUpper(b[(i + 1) \div 2] \div 16)
                                     ELSE HexDigitUpper(b[i \div 2] % 16)]

(* strip the bytes of set ws from both ends                                  *)
RECURSIVE TrimLeft(_, _)
TrimLeft(s, ws) == IF Len(s) > 0 /\ s[1] \in ws THEN TrimLeft(Tail(s), ws) ELSE s
RECURSIVE TrimRight(_, _)
TrimRight(s, ws) == IF Len(s) > 0 /\ s[Len(s)] \in ws THEN TrimRight(SubSeq(s, 1, Len(s) - 1), ws) ELSE s
Trim(s, ws) == TrimRight(TrimLeft(s, ws), ws)

(* ASCII text of a TLA+ string constant is not available in TLC without      *)
(* Java overrides; byte strings are therefore written as tuples.             *)
=============================================================================
