SPECIFICATION Spec
CONSTANTS
  Caller = {c1, c2, c3}
  Buf = {b1, b2, b3}
  MaxCalls = 2
  Deviation = {}
INVARIANT Inv
CHECK_DEADLOCK FALSE
