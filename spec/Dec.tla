-------------------------------- MODULE Dec --------------------------------
(* Decimal text <-> numbers of arbitrary size, as digit sequences.           *)
(* Used for strconv.ParseUint / Atoi acceptance (C16, C17) and for the       *)
(* RFC 6287 encoding of a numeric question: decimal -> hexadecimal text ->   *)
(* right-padded with '0' (C17).                                              *)
EXTENDS Bytes, TLC

(* s is a non-empty sequence of ASCII decimal digits                         *)
IsDecText(s) == Len(s) > 0 /\ AllDigits(s)

(* multiply a big-endian limb sequence by m and add a (m, a small), one pass  *)
(* from the least significant limb; result [d |-> limbs, c |-> carry out]    *)
RECURSIVE MA(_, _, _, _, _, _)
MA(x, base, m, c, i, acc) ==
    IF i = 0 THEN [d |-> acc, c |-> c]
    ELSE LET v == x[i] * m + c IN MA(x, base, m, v \div base, i - 1, <<v % base>> \o acc)
MulAdd(x, base, m, a) == MA(x, base, m, a, Len(x), <<>>)

(* Horner evaluation of a decimal text into `width` big-endian limbs;        *)
(* result [d |-> limbs, ovf |-> the value did not fit]                       *)
RECURSIVE Horn(_, _, _, _)
Horn(s, base, k, cur) ==
    IF k > Len(s) THEN cur
    ELSE LET r == MulAdd(cur.d, base, 10, s[k] - 48)
         IN  Horn(s, base, k + 1, [d |-> r.d, ovf |-> cur.ovf \/ r.c # 0])
DecEval(s, base, width) == Horn(s, base, 1, [d |-> [i \in 1..width |-> 0], ovf |-> FALSE])
DecToLimbs(s, base, width, k) == DecEval(s, base, width).d          \* (k kept for readability: = Len(s))
DecOverflowsUpTo(s, base, width, k) == DecEval(s, base, width).ovf

(* strconv.ParseUint(s, 10, 64): non-empty, digits only, value < 2^64        *)
ParseUint64OK(s) == IsDecText(s) /\ ~DecOverflowsUpTo(s, 256, 8, Len(s))
ParseUint64(s)   == DecToLimbs(s, 256, 8, Len(s))               \* 8-byte big-endian

RECURSIVE StripZeros(_)
StripZeros(x) == IF Len(x) > 1 /\ x[1] = 0 THEN StripZeros(Tail(x)) ELSE x

(* hexadecimal digits (values 0..15) of a decimal text, no leading zeros     *)
(* ("0" for zero); Len(s)+1 nibbles always suffice because 10 < 16           *)
DecToHexDigits(s) == StripZeros(DecToLimbs(s, 16, Len(s) + 1, Len(s)))

(* RFC 6287 section 5.1 / appendix: a numeric question is converted to       *)
(* hexadecimal text, right-padded with '0' to 256 hex digits = 128 bytes     *)
NumericQuestion(s) ==
    LET h == DecToHexDigits(s)
        p == h \o [i \in 1..(256 - Len(h)) |-> 0]
    IN  TLCEval([k \in 1..128 |-> 16 * p[2 * k - 1] + p[2 * k]])

(* strconv.Atoi text: optional sign, then digits                             *)
AtoiText(s) == Len(s) > 0 /\ (IF s[1] \in {43, 45} THEN IsDecText(Tail(s)) ELSE IsDecText(s))
AtoiNeg(s)  == s[1] = 45 /\ \E i \in 2..Len(s) : s[i] # 48
AtoiMag(s)  == IF s[1] \in {43, 45} THEN Tail(s) ELSE s            \* magnitude digits
(* magnitude as a small natural number when it has at most 9 significant digits, else -1 *)
RECURSIVE SmallDec(_, _)
SmallDec(s, k) == IF k = 0 THEN 0 ELSE SmallDec(s, k - 1) * 10 + (s[k] - 48)
RECURSIVE DropZeros(_)
DropZeros(s) == IF Len(s) > 1 /\ s[1] = 48 THEN DropZeros(Tail(s)) ELSE s
SmallMag(s) == LET m == DropZeros(AtoiMag(s)) IN IF Len(m) <= 9 THEN SmallDec(m, Len(m)) ELSE -1

ASSUME /\ ParseUint64(<<49, 50, 51, 52, 53, 54, 55, 56>>) = <<0, 0, 0, 0, 0, 188, 97, 78>>          \* 12345678 = 0xBC614E
       /\ ParseUint64OK(<<49,56,52,52,54,55,52,52,48,55,51,55,48,57,53,53,49,54,49,53>>)              \* 2^64-1
       /\ ParseUint64(<<49,56,52,52,54,55,52,52,48,55,51,55,48,57,53,53,49,54,49,53>>) = <<255,255,255,255,255,255,255,255>>
       /\ ~ParseUint64OK(<<49,56,52,52,54,55,52,52,48,55,51,55,48,57,53,53,49,54,49,54>>)             \* 2^64
       /\ ~ParseUint64OK(<<>>) /\ ~ParseUint64OK(<<43, 49>>) /\ ParseUint64OK(<<48, 48, 55>>)
       /\ DecToHexDigits(<<49, 49, 49, 49, 49, 49, 49, 49>>) = <<10, 9, 8, 10, 12, 7>>                \* 11111111 = 0xA98AC7
       /\ SubSeq(NumericQuestion(<<49, 49, 49, 49, 49, 49, 49, 49>>), 1, 4) = <<169, 138, 199, 0>>    \* RFC 6287 app. C
       /\ SubSeq(NumericQuestion(<<48, 48, 48, 48, 48, 48, 48, 48>>), 1, 2) = <<0, 0>>
       /\ SmallMag(<<45, 48, 48, 55>>) = 7 /\ AtoiNeg(<<45, 48, 48, 55>>) /\ ~AtoiNeg(<<45, 48>>)
=============================================================================
