SPECIFICATION Fair
CONSTANTS
  Caller = {c1, c2}
  Buf = {b1, b2, b3}
  MaxCalls = 1
  Deviation = {}
PROPERTY Progress
CHECK_DEADLOCK FALSE
