#!/bin/sh
# Offline setup: nothing tree-independent needs building; every check rebuilds from /repo's working tree.
set -e
cd "$(dirname "$0")"
mkdir -p .build evidence replays
command -v tlc >/dev/null
command -v go >/dev/null
echo setup-ok
